//! The one PRNG every generated choice comes from (SplitMix64; no external state).

#[derive(Clone, Debug)]
pub struct SplitMix64(pub u64);

impl SplitMix64 {
    pub fn new(seed: u64) -> Self {
        SplitMix64(seed)
    }
    /// stream for run `i` of seed `s`
    pub fn for_run(seed: u64, i: u64) -> Self {
        let mut a = SplitMix64(seed ^ 0x9E37_79B9_7F4A_7C15);
        let x = a.next_u64();
        let mut b = SplitMix64(x ^ i.wrapping_mul(0xD6E8_FEB8_6659_FD93));
        b.next_u64();
        b
    }
    pub fn next_u64(&mut self) -> u64 {
        self.0 = self.0.wrapping_add(0x9E37_79B9_7F4A_7C15);
        let mut z = self.0;
        z = (z ^ (z >> 30)).wrapping_mul(0xBF58_476D_1CE4_E5B9);
        z = (z ^ (z >> 27)).wrapping_mul(0x94D0_49BB_1331_11EB);
        z ^ (z >> 31)
    }
    /// uniform in lo..=hi
    pub fn range(&mut self, lo: i64, hi: i64) -> i64 {
        debug_assert!(lo <= hi);
        let span = (hi - lo) as u64 + 1;
        lo + (self.next_u64() % span) as i64
    }
    pub fn chance(&mut self, percent: u32) -> bool {
        (self.next_u64() % 100) < percent as u64
    }
    pub fn pick<'a, T>(&mut self, xs: &'a [T]) -> &'a T {
        &xs[(self.next_u64() % xs.len() as u64) as usize]
    }
    /// uniform f64 in [lo, hi], rounded to `decimals` decimals (keeps JSON round trips exact)
    pub fn f64_in(&mut self, lo: f64, hi: f64, decimals: i32) -> f64 {
        let u = (self.next_u64() >> 11) as f64 / (1u64 << 53) as f64;
        let v = lo + (hi - lo) * u;
        let m = 10f64.powi(decimals);
        ((v * m).round() / m).clamp(lo, hi)
    }
}

pub fn fnv1a(bytes: &[u8]) -> u64 {
    let mut h: u64 = 0xcbf29ce484222325;
    for b in bytes {
        h ^= *b as u64;
        h = h.wrapping_mul(0x100000001b3);
    }
    h
}
