//! C19 simulator: the real CLI binary run as a sequence of processes over a simulated libc
//! (disk faults, crash points, clock, hash seed), checked against the library. DESIGN.md §3.
//!
//!   c19 run      --tier quick|thorough --bin CLI --shim SO --evidence FILE --replays DIR --known FILE
//!   c19 worker   (internal) one shard of a batch
//!   c19 probe    (internal) execute one case file, print the pass result
//!   c19 replay   FILE --bin CLI --shim SO
//!   c19 selftest --bin CLI --shim SO [--runs N]
//!   c19 show     --seed N --run I --tier T

#[path = "/repo/src/cli.rs"]
#[allow(dead_code)]
mod cli;
mod driver;
mod exec;
mod model;
mod prng;
mod sweep;

use serde::{Deserialize, Serialize};
use std::io::Write;
use std::path::PathBuf;

#[derive(Serialize, Deserialize, Clone, Debug)]
pub struct CaseFile {
    pub property: String,
    /// oracle id of the violation
    pub class: String,
    pub seed: u64,
    pub run: u64,
    pub tier: u32,
    /// "strict" (fault-free) | "inject"
    pub pass: String,
    /// explicit scenario: argv inputs, per-step environment, resolved faults, disk edits
    pub scenario: model::Scenario,
    pub step: usize,
    pub message: String,
    #[serde(default)]
    pub minimised: bool,
    #[serde(default)]
    pub original_scenario: Option<model::Scenario>,
    /// event log of the violating step as recorded when the case was written
    #[serde(default)]
    pub events: Vec<String>,
}

pub fn arg_val(args: &[String], name: &str) -> Option<String> {
    args.iter().position(|a| a == name).and_then(|p| args.get(p + 1).cloned())
}
pub fn arg_u64(args: &[String], name: &str, default: u64) -> u64 {
    arg_val(args, name).map(|v| v.parse().unwrap_or_else(|_| die(&format!("bad value for {name}")))).unwrap_or(default)
}
pub fn die(msg: &str) -> ! {
    eprintln!("c19: harness error: {msg}");
    std::process::exit(2)
}
pub fn tier_num(t: &str) -> u32 {
    match t {
        "quick" => 0,
        "thorough" => 1,
        _ => die("tier must be quick or thorough"),
    }
}

#[derive(Serialize, Deserialize, Clone, Debug)]
pub struct RunLine {
    pub i: u64,
    pub scenario: model::Scenario,
    pub strict: exec::PassResult,
    pub inject: Option<exec::PassResult>,
    pub wall_us: u64,
}

fn strip_events(p: &mut exec::PassResult) {
    for s in p.steps.iter_mut() {
        s.events.clear();
    }
}

pub fn scenario_for(seed: u64, i: u64, tier: u32, total_random: u64, sweep_stride: u64) -> model::Scenario {
    let methods = exec::method_names();
    if i < total_random {
        model::generate(seed, i, tier, &methods)
    } else {
        sweep::generate(seed, (i - total_random) * sweep_stride.max(1), &methods)
    }
}

/// execute scenario `i`: fault-free pass, then (if any fault applies) the fault-injecting pass
pub fn run_one(ctx: &exec::Ctx, sc: &model::Scenario) -> (model::Scenario, exec::PassResult, Option<exec::PassResult>) {
    let strict = exec::run_pass(ctx, sc, false);
    let resolved = if sc.steps.iter().any(|s| !s.faults.is_empty()) { sc.clone() } else { exec::resolve_faults(sc, &strict) };
    let has_faults = resolved.steps.iter().any(|s| !s.faults.is_empty()) || resolved.edits.iter().any(|e| e.fault);
    let inject = if has_faults && strict.violations.is_empty() { Some(exec::run_pass(ctx, &resolved, true)) } else { None };
    (resolved, strict, inject)
}

fn worker(args: &[String]) -> i32 {
    let seed = arg_u64(args, "--seed", 1);
    let tier = arg_u64(args, "--tier", 0) as u32;
    let total = arg_u64(args, "--total", 0);
    let total_random = arg_u64(args, "--random", total);
    let stride = arg_u64(args, "--stride", 1);
    let offset = arg_u64(args, "--offset", 0);
    let first = arg_u64(args, "--first", 0);
    let sweep_stride = arg_u64(args, "--sweep-stride", 1);
    let out_dir = arg_val(args, "--out").unwrap_or_else(|| die("--out"));
    let name = arg_val(args, "--name").unwrap_or_else(|| offset.to_string());
    let ctx = exec::Ctx {
        bin: PathBuf::from(arg_val(args, "--bin").unwrap_or_else(|| die("--bin"))),
        shim: PathBuf::from(arg_val(args, "--shim").unwrap_or_else(|| die("--shim"))),
        // fixed-width names: a tool that echoes a path on stdout must produce writes of the same length
        // whichever shard runs the scenario (the digests compare write sizes)
        dir: PathBuf::from(format!("{out_dir}/s{:0>4}", name)),
    };
    let mut lines = std::io::BufWriter::new(std::fs::OpenOptions::new().create(true).append(true).open(format!("{out_dir}/w{name}.jsonl")).unwrap());
    let progress_path = format!("{out_dir}/w{name}.progress");
    let mut i = first + offset;
    // skip list: scenarios on which the library reference does not terminate (driver restarts us)
    let skip: Vec<u64> = arg_val(args, "--skip").map(|s| s.split(',').filter_map(|x| x.parse().ok()).collect()).unwrap_or_default();
    let mut code = 0;
    while i < first + total {
        if skip.contains(&i) {
            i += stride;
            continue;
        }
        std::fs::write(&progress_path, format!("{i}\n")).ok();
        let sc = scenario_for(seed, i, tier, total_random, sweep_stride);
        let t0 = std::time::Instant::now();
        let (resolved, strict, inject) = run_one(&ctx, &sc);
        let wall_us = t0.elapsed().as_micros() as u64;
        let failed = !strict.violations.is_empty() || inject.as_ref().map(|p| !p.violations.is_empty()).unwrap_or(false);
        let mut line = RunLine { i, scenario: resolved, strict, inject, wall_us };
        if failed {
            std::fs::write(format!("{out_dir}/fail-{i}.json"), serde_json::to_vec(&line).unwrap()).unwrap();
        }
        strip_events(&mut line.strict);
        if let Some(p) = line.inject.as_mut() {
            strip_events(p);
        }
        serde_json::to_writer(&mut lines, &line).unwrap();
        lines.write_all(b"\n").unwrap();
        if failed {
            code = 3;
            break;
        }
        i += stride;
    }
    lines.flush().unwrap();
    let _ = std::fs::remove_dir_all(&ctx.dir);
    std::fs::write(&progress_path, "done\n").ok();
    code
}

fn probe(args: &[String]) -> i32 {
    let case_path = arg_val(args, "--case").unwrap_or_else(|| die("--case"));
    let case: CaseFile = serde_json::from_slice(&std::fs::read(&case_path).unwrap_or_else(|_| die("cannot read case"))).unwrap_or_else(|e| die(&format!("bad case file: {e}")));
    let out = arg_val(args, "--out").unwrap_or_else(|| die("--out"));
    let ctx = exec::Ctx {
        bin: PathBuf::from(arg_val(args, "--bin").unwrap_or_else(|| die("--bin"))),
        shim: PathBuf::from(arg_val(args, "--shim").unwrap_or_else(|| die("--shim"))),
        dir: PathBuf::from(arg_val(args, "--dir").unwrap_or_else(|| die("--dir"))),
    };
    let r = exec::run_pass(&ctx, &case.scenario, case.pass == "inject");
    std::fs::write(out, serde_json::to_vec(&r).unwrap()).unwrap();
    let _ = std::fs::remove_dir_all(&ctx.dir);
    0
}

fn show(args: &[String]) -> i32 {
    let seed = arg_u64(args, "--seed", 1);
    let run = arg_u64(args, "--run", 0);
    let tier = tier_num(&arg_val(args, "--tier").unwrap_or_else(|| "quick".into()));
    let total_random = arg_u64(args, "--random", u64::MAX);
    println!("{}", serde_json::to_string_pretty(&scenario_for(seed, run, tier, total_random, arg_u64(args, "--sweep-stride", 1))).unwrap());
    0
}

fn main() {
    let args: Vec<String> = std::env::args().collect();
    if args.len() < 2 {
        die("usage: c19 run|worker|probe|replay|selftest|show ...");
    }
    // panics of the in-process library reference are expected events, not harness output
    let default_hook = std::panic::take_hook();
    std::panic::set_hook(Box::new(move |info| {
        if !exec::QUIET_PANICS.load(std::sync::atomic::Ordering::SeqCst) {
            default_hook(info);
        }
    }));
    let code = match args[1].as_str() {
        "worker" => worker(&args),
        "probe" => probe(&args),
        "show" => show(&args),
        "today" => {
            exec::print_today(args.get(2).and_then(|s| s.parse().ok()).unwrap_or(0));
            0
        }
        "run" => driver::run(&args),
        "replay" => driver::replay(&args),
        "selftest" => driver::selftest(&args),
        _ => die("unknown subcommand"),
    };
    std::process::exit(code)
}
