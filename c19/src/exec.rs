//! Executes a scenario: every step is the real release binary started under the libc shim; the
//! harness is the disk between steps. Oracles are evaluated after every step against the library
//! (linked in-process) and a trivial model of the scratch directory.

use crate::cli::ParamsConfig;
use crate::model::{DiskEdit, Fault, FaultSpec, Scenario, Step};
use crate::prng::fnv1a;
use chrono::NaiveDate;
use clap::ValueEnum;
use islamic_prayer_times::{
    prayer_times_dt_rng, Coordinates, DateRange, Elevation, Gmt, HijriDate, Latitude, Location,
    Longitude, Method, Params, Prayer, PrayerTime,
};
use serde::{Deserialize, Serialize};
use std::collections::{BTreeMap, HashMap};
use std::panic::{catch_unwind, AssertUnwindSafe};
use std::path::{Path, PathBuf};
use std::process::{Command, Stdio};
use std::str::FromStr;
use std::time::{Duration, Instant};

pub type Times = BTreeMap<NaiveDate, BTreeMap<Prayer, Result<PrayerTime, ()>>>;

pub const STEP_TIMEOUT_S: u64 = 60;

pub struct Ctx {
    pub bin: PathBuf,
    pub shim: PathBuf,
    /// scratch directory of this scenario (workload files live in `<dir>/w/`)
    pub dir: PathBuf,
}

#[derive(Serialize, Deserialize, Clone, Debug, PartialEq)]
pub struct Violation {
    pub step: usize,
    /// oracle id, stable across runs: the failure class used by the minimiser and known findings
    pub class: String,
    pub message: String,
}

#[derive(Serialize, Deserialize, Clone, Debug, Default, PartialEq)]
pub struct StepRecord {
    pub argv: Vec<String>,
    pub exit: Option<i32>,
    pub signal: Option<i32>,
    pub timed_out: bool,
    pub events: Vec<String>,
    pub fired: Vec<String>,
    pub threads: u32,
    pub stdout_len: usize,
    pub stdout_hash: String,
    pub files_after: BTreeMap<String, String>,
    pub expectation: String,
    pub skipped: Option<String>,
    /// per target: (op, first index, count) of the workload operations seen (for fault resolution)
    pub ops: BTreeMap<String, Vec<(String, i64, i64)>>,
    pub param_key_order: Option<String>,
    #[serde(default)]
    pub multi_thread_io: bool,
}

#[derive(Serialize, Deserialize, Clone, Debug, Default, PartialEq)]
pub struct Probes {
    pub steps: u64,
    pub steps_exit0: u64,
    pub steps_nonzero: u64,
    pub faults_configured: BTreeMap<String, u64>,
    pub faults_fired: BTreeMap<String, u64>,
    pub crash_in_params: u64,
    pub crash_in_output: u64,
    pub crash_in_stdout: u64,
    pub hard_fault_then_nonzero: u64,
    pub transparent_fault_then_exit0: u64,
    pub transparent_fault_then_nonzero: u64,
    pub torn_file_reread: u64,
    pub flip_still_decodes: u64,
    pub flip_undecodable: u64,
    pub disk_edits: BTreeMap<String, u64>,
    pub roundtrip_across_midnight: u64,
    pub roundtrip_across_year: u64,
    pub roundtrip_clock_backwards: u64,
    pub defaulted_dates: u64,
    pub defaulted_today_matches_utc_clock: u64,
    pub library_reference_panicked: u64,
    pub multithreaded_steps: u64,
    pub rejects_checked: u64,
    pub rejects_via_file: u64,
    pub byte_identity_checks: u64,
    pub output_file_checks: u64,
    pub listing_checks: u64,
    pub params_file_checks: u64,
    pub skipped_unsafe_config: u64,
    pub days_computed: u64,
    #[serde(default)]
    pub extra_files_seen: u64,
    #[serde(default)]
    pub params_file_differs_from_flags: u64,
    #[serde(default)]
    pub expectation_unknown: u64,
    #[serde(default)]
    pub reload_identity_checks: u64,
    #[serde(default)]
    pub verification_reloads: u64,
    #[serde(default)]
    pub lenient_reader_accepted: u64,
    #[serde(default)]
    pub hand_edited_file_refused: u64,
    #[serde(default)]
    pub multi_thread_io_steps: u64,
    #[serde(default)]
    pub faults_not_aimed_multi_thread_io: u64,
}

#[derive(Serialize, Deserialize, Clone, Debug, Default, PartialEq)]
pub struct PassResult {
    pub violations: Vec<Violation>,
    pub steps: Vec<StepRecord>,
    pub probes: Probes,
    pub key_orders: Vec<String>,
    pub digest: String,
}

fn bump(m: &mut BTreeMap<String, u64>, k: &str) {
    *m.entry(k.to_string()).or_default() += 1;
}

pub fn method_names() -> Vec<String> {
    Method::value_variants().iter().filter_map(|m| m.to_possible_value().map(|v| v.get_name().to_string())).collect()
}

fn method_from_name(n: &str) -> Option<Method> {
    <Method as ValueEnum>::from_str(n, false).ok()
}

/// canonical text of a configuration (order-insensitive: serde_json::Value maps are sorted)
fn cfg_key(c: &ParamsConfig) -> String {
    serde_json::to_value(c).map(|v| v.to_string()).unwrap_or_default()
}
fn val<T: Serialize>(t: &T) -> serde_json::Value {
    serde_json::to_value(t).unwrap_or(serde_json::Value::Null)
}

/// what the flags of an "A" step describe; `None` = flag omitted
struct FlagCfg {
    params: Option<Params>,
    lat: Latitude,
    lon: Longitude,
    elev: Option<Elevation>,
    gmt: Gmt,
    start: Option<NaiveDate>,
    end: Option<NaiveDate>,
}

/// The number a flag's text denotes is decided by `str::parse::<f64>` (std), not by the library's
/// own text parser (the CLI uses that one: asking it would make the oracle agree with any bug in
/// it); the value then goes through the library's validating constructor. A value inside the
/// documented closed range that the constructor refuses is reported as such.
fn num<T: TryFrom<f64>>(what: &str, text: &str, lo: f64, hi: f64) -> Result<T, String> {
    let v: f64 = text.parse().map_err(|_| format!("harness: {what} {text:?} is not a number"))?;
    if !(lo..=hi).contains(&v) {
        return Err(format!("harness: generated {what} {v} outside [{lo}, {hi}]"));
    }
    T::try_from(v).map_err(|_| format!("VALID: the library refuses {what} = {v}, which lies inside the documented range [{lo}, {hi}]"))
}

/// defaults the tool declares (clap metadata of the real `CliArgs`) for flags that can be omitted
fn declared_default(flag: &str) -> Option<String> {
    use clap::CommandFactory;
    let cmd = crate::cli::CliArgs::command();
    let arg = cmd.get_arguments().find(|a| a.get_long() == Some(flag))?;
    arg.get_default_values().first().map(|v| v.to_string_lossy().into_owned())
}

fn flag_cfg(i: &crate::model::Inputs) -> Result<FlagCfg, String> {
    // an omitted method / elevation stands for the default the tool itself declares (--help)
    let method_name = i.method.clone().or_else(|| declared_default("method"));
    let elev_text = i.elev.clone().or_else(|| declared_default("elevation"));
    Ok(FlagCfg {
        params: match &method_name {
            Some(m) => Some(Params::new(method_from_name(m).ok_or_else(|| format!("harness: unknown method name {m}"))?)),
            None => None,
        },
        lat: num("latitude", &i.lat, -90.0, 90.0)?,
        lon: num("longitude", &i.lon, -180.0, 180.0)?,
        elev: match &elev_text {
            Some(e) => Some(num("elevation", e, -420.0, 8848.0)?),
            None => None,
        },
        gmt: num("GMT offset", &i.gmt, -12.0, 12.0)?,
        start: match &i.start {
            Some(s) => Some(NaiveDate::from_str(s).map_err(|e| format!("harness: start {s}: {e}"))?),
            None => None,
        },
        end: match &i.end {
            Some(s) => Some(NaiveDate::from_str(s).map_err(|e| format!("harness: end {s}: {e}"))?),
            None => None,
        },
    })
}

pub fn argv_for(sc: &Scenario, step: &Step, wdir: &Path) -> Vec<String> {
    let p = |n: &str| wdir.join(n).to_string_lossy().into_owned();
    let mut a: Vec<String> = Vec::new();
    if step.kind == "A" || step.kind == "R" {
        let i = step.inputs.as_ref().unwrap_or(&sc.inputs);
        let mut flags: Vec<(String, Option<String>)> = vec![
            ("method".into(), i.method.clone()),
            ("latitude".into(), Some(i.lat.clone())),
            ("longitude".into(), Some(i.lon.clone())),
            ("elevation".into(), i.elev.clone()),
            ("gmt".into(), Some(i.gmt.clone())),
            ("start-date".into(), i.start.clone()),
            ("end-date".into(), i.end.clone()),
        ];
        if let Some((f, v)) = &step.bad {
            for e in flags.iter_mut() {
                if &e.0 == f {
                    e.1 = Some(v.clone());
                }
            }
        }
        for (f, v) in flags {
            if let Some(v) = v {
                a.push(format!("--{f}={v}"));
            }
        }
    }
    if let Some(i) = &step.input {
        a.push(format!("--input-file-path={}", p(i)));
    }
    if let Some(s) = &step.save_params {
        a.push(format!("--params-file-path={}", p(s)));
    }
    if let Some(o) = &step.output {
        a.push(format!("--output-file-path={}", p(o)));
    }
    a
}

fn read_dir_files(wdir: &Path) -> BTreeMap<String, Vec<u8>> {
    let mut m = BTreeMap::new();
    if let Ok(rd) = std::fs::read_dir(wdir) {
        for e in rd.flatten() {
            if let Ok(b) = std::fs::read(e.path()) {
                m.insert(e.file_name().to_string_lossy().into_owned(), b);
            }
        }
    }
    m
}

fn apply_edit(wdir: &Path, e: &DiskEdit) -> Result<String, String> {
    let path = wdir.join(&e.file);
    let mut b = std::fs::read(&path).map_err(|_| "file absent".to_string())?;
    let how;
    match e.kind.as_str() {
        "truncate" => {
            let keep = (b.len() as u64 * e.pos.min(1000) / 1000) as usize;
            b.truncate(keep);
            how = format!("truncated to {keep} bytes");
        }
        "zero-tail" => {
            let keep = (b.len() as u64 * e.pos.min(1000) / 1000) as usize;
            for x in b[keep..].iter_mut() {
                *x = 0;
            }
            how = format!("zeroed from byte {keep}");
        }
        "truncate-bytes" => {
            if e.pos as usize >= b.len() {
                return Err("beyond the end of the file".into());
            }
            b.truncate(e.pos as usize);
            how = format!("truncated to {} bytes", e.pos);
        }
        "flip-abs" => {
            if e.pos as usize >= 8 * b.len() {
                return Err("beyond the end of the file".into());
            }
            let bit = e.pos as usize;
            b[bit / 8] ^= 1 << (bit % 8);
            how = format!("bit {bit} flipped");
        }
        // ---- hand edits that keep the file's meaning (scenario proper, never faults)
        "pad-leading-ws" | "pad-trailing-ws" => {
            let n = e.pos as usize;
            let pad: Vec<u8> = (0..n).map(|i| if i % 61 == 60 { b'\n' } else { b' ' }).collect();
            if e.kind == "pad-leading-ws" {
                let mut nb = pad;
                nb.extend_from_slice(&b);
                b = nb;
            } else {
                b.extend_from_slice(&pad);
            }
            how = format!("{n} bytes of JSON whitespace {}", if e.kind == "pad-leading-ws" { "before the value" } else { "after the value" });
        }
        "reformat-pretty" => {
            let v: serde_json::Value = serde_json::from_slice(&b).map_err(|e| format!("not JSON: {e}"))?;
            b = serde_json::to_vec_pretty(&v).unwrap();
            b.push(b'\n');
            how = "re-serialised pretty-printed with sorted keys".to_string();
        }
        "unknown-field" => {
            let mut v: serde_json::Value = serde_json::from_slice(&b).map_err(|e| format!("not JSON: {e}"))?;
            match v.as_object_mut() {
                Some(o) => {
                    o.insert("comment".into(), serde_json::Value::String("edited by hand".into()));
                }
                None => return Err("not an object".into()),
            }
            b = serde_json::to_vec(&v).unwrap();
            how = "extra top-level field \"comment\" added".to_string();
        }
        // ---- hand edits that make the file malformed
        "append-garbage" => {
            b.extend_from_slice(b"}{\"x\":1} trailing");
            how = "non-whitespace bytes appended after the JSON value".to_string();
        }
        "flip" => {
            if b.is_empty() {
                return Err("empty file".into());
            }
            let bit = (e.pos % (8 * b.len() as u64)) as usize;
            b[bit / 8] ^= 1 << (bit % 8);
            how = format!("bit {bit} flipped");
        }
        "set-number" | "set-string" => {
            let mut v: serde_json::Value = serde_json::from_slice(&b).map_err(|e| format!("not JSON: {e}"))?;
            let mut hits = 0;
            fn walk(v: &mut serde_json::Value, e: &DiskEdit, hits: &mut u32) {
                match v {
                    serde_json::Value::Number(n) if e.kind == "set-number" => {
                        if let (Some(x), Ok(old)) = (n.as_f64(), e.old.parse::<f64>()) {
                            if x == old {
                                *hits += 1;
                                if let Ok(nv) = serde_json::from_str::<serde_json::Value>(&e.new) {
                                    *v = nv;
                                }
                            }
                        }
                    }
                    serde_json::Value::String(s) if e.kind == "set-string" => {
                        if *s == e.old {
                            *hits += 1;
                            *s = e.new.clone();
                        }
                    }
                    serde_json::Value::Array(a) => a.iter_mut().for_each(|x| walk(x, e, hits)),
                    serde_json::Value::Object(o) => o.values_mut().for_each(|x| walk(x, e, hits)),
                    _ => {}
                }
            }
            walk(&mut v, e, &mut hits);
            if hits != 1 {
                return Err(format!("{hits} leaves equal {}", e.old));
            }
            b = serde_json::to_vec(&v).unwrap();
            how = format!("leaf {} -> {}", e.old, e.new);
        }
        k => return Err(format!("unknown edit {k}")),
    }
    std::fs::write(&path, &b).map_err(|e| e.to_string())?;
    Ok(how)
}

struct ChildResult {
    exit: Option<i32>,
    signal: Option<i32>,
    timed_out: bool,
    stdout: Vec<u8>,
    events: Vec<String>,
}

fn run_child(ctx: &Ctx, wdir: &Path, argv: &[String], step: &Step, idx: usize) -> ChildResult {
    use std::os::unix::process::ExitStatusExt;
    let plan_path = ctx.dir.join(format!("plan{idx}.txt"));
    let log_path = ctx.dir.join(format!("events{idx}.log"));
    let out_path = ctx.dir.join(format!("stdout{idx}.bin"));
    let err_path = ctx.dir.join(format!("stderr{idx}.txt"));
    let _ = std::fs::remove_file(&log_path);
    let mut plan = format!(
        "log {}\nprefix {}/\nrand {}\nclock {} 0\ncores {}\n",
        log_path.display(),
        wdir.display(),
        step.env.hash_seed,
        step.env.clock,
        step.env.cores
    );
    for f in &step.faults {
        plan.push_str(&format!("fault {} {} {} {}\n", f.op, f.n, f.kind, f.arg));
    }
    std::fs::write(&plan_path, plan).unwrap();
    let out = std::fs::File::create(&out_path).unwrap();
    let err = std::fs::File::create(&err_path).unwrap();
    let mut child = Command::new(&ctx.bin)
        .args(argv)
        .current_dir(wdir)
        .env_clear()
        .env("LD_PRELOAD", &ctx.shim)
        .env("IPTSIM_PLAN", &plan_path)
        .env("TZ", &step.env.tz)
        .env("RUST_BACKTRACE", "0")
        // a private home and temp directory per scenario, shared by its steps like a user's machine
        // (inside the workload prefix, so that anything a changed tool keeps there - a cache, a lock
        // file - is seen, faultable, and carried from one step to the next)
        .env("HOME", wdir.join("home"))
        .env("TMPDIR", wdir.join("tmp"))
        .stdin(Stdio::null())
        .stdout(out)
        .stderr(err)
        .spawn()
        .expect("harness: cannot start the CLI binary");
    let t0 = Instant::now();
    let mut timed_out = false;
    let status = loop {
        match child.try_wait().unwrap() {
            Some(s) => break s,
            None => {
                if t0.elapsed() > Duration::from_secs(STEP_TIMEOUT_S) {
                    let _ = child.kill();
                    timed_out = true;
                    break child.wait().unwrap();
                }
                std::thread::sleep(Duration::from_micros(200));
            }
        }
    };
    let stdout = std::fs::read(&out_path).unwrap_or_default();
    let events = std::fs::read_to_string(&log_path).unwrap_or_default().lines().map(|s| s.to_string()).collect();
    ChildResult { exit: status.code(), signal: status.signal(), timed_out, stdout, events }
}

/// strip the global sequence number (first token) so that records compare across passes
fn ev_body(l: &str) -> &str {
    l.split_once(' ').map(|x| x.1).unwrap_or(l)
}

/// target name -> list of (op, first index, count)
fn summarise_ops(events: &[String], step: &Step) -> BTreeMap<String, Vec<(String, i64, i64)>> {
    let mut fd_target: HashMap<String, String> = HashMap::new();
    fd_target.insert("fd1".into(), "stdout".into());
    let name_target = |n: &str| -> Option<String> {
        if step.kind != "B" && Some(n) == step.save_params.as_deref() {
            Some("params".into())
        } else if Some(n) == step.output.as_deref() {
            Some("output".into())
        } else if Some(n) == step.input.as_deref() {
            Some("input".into())
        } else {
            None
        }
    };
    let mut idxs: BTreeMap<(String, String), Vec<i64>> = BTreeMap::new();
    for l in events {
        let b = ev_body(l);
        let toks: Vec<&str> = b.split_whitespace().collect();
        if toks.is_empty() {
            continue;
        }
        if let Some(n) = toks[0].strip_prefix("open#") {
            let n: i64 = n.parse().unwrap_or(-1);
            if let Some(t) = name_target(toks[1]) {
                idxs.entry((t.clone(), "open".into())).or_default().push(n);
                if let Some(fd) = toks.last().filter(|x| x.starts_with("fd")) {
                    fd_target.insert(fd.to_string(), t);
                }
            }
        } else if let Some(n) = toks[0].strip_prefix("write#").or_else(|| toks[0].strip_prefix("read#")) {
            let op = if toks[0].starts_with("write") { "write" } else { "read" };
            let n: i64 = n.parse().unwrap_or(-1);
            if let Some(t) = fd_target.get(toks[1]) {
                idxs.entry((t.clone(), op.into())).or_default().push(n);
            }
        } else if let Some(n) = toks[0].strip_prefix("meta#") {
            let n: i64 = n.parse().unwrap_or(-1);
            idxs.entry(("meta".into(), "meta".into())).or_default().push(n);
        } else if toks[0] == "close" {
            if toks.len() > 1 && toks[1] != "fd1" {
                fd_target.remove(toks[1]);
            }
        }
    }
    let mut out: BTreeMap<String, Vec<(String, i64, i64)>> = BTreeMap::new();
    for ((t, op), v) in idxs {
        out.entry(t).or_default().push((op, *v.first().unwrap(), v.len() as i64));
    }
    out
}

fn fired_faults(events: &[String]) -> Vec<String> {
    let mut v = Vec::new();
    for l in events {
        let b = ev_body(l);
        if let Some((lhs, rhs)) = b.rsplit_once(" -> ") {
            let op = lhs.split('#').next().unwrap_or("");
            if !(op == "open" || op == "write" || op == "read" || op == "meta") {
                continue;
            }
            let r = rhs.split_whitespace().next().unwrap_or("");
            if r.starts_with('E') || r == "SHORT" || r == "CRASH" || r == "TEAR" {
                v.push(format!("{op}:{r}"));
            }
        }
    }
    v
}

fn is_transparent(f: &str) -> bool {
    f.ends_with(":SHORT") || f.ends_with(":EINTR")
}

/// Did the step open one of the scenario's own artefacts (a path given with -o / -p) for writing?
/// Other files under the scratch directory - a history log or a lock file under $HOME, a cache -
/// are not "something computed" and are none of this oracle's business.
fn created_something(events: &[String], artefacts: &[&String]) -> Option<String> {
    for l in events {
        let b = ev_body(l);
        if b.starts_with("open#") && (b.contains("+creat") || b.contains("+trunc") || b.contains("flags=w")) {
            let path = b.split_whitespace().nth(1).unwrap_or("");
            if artefacts.iter().any(|a| a.as_str() == path) {
                return Some(b.to_string());
            }
        }
    }
    None
}

/// For the order- and text-sensitive record (digest, replay comparison): paths that are not
/// artefacts of the scenario (temporary files, caches, logs - their names may contain a pid or a
/// random suffix, and what is written to them may contain the scratch path) are replaced by a fixed
/// token, and transfers on their descriptors lose their byte counts.
fn mask_stray(events: &[String], artefacts: &[&String]) -> Vec<String> {
    let mut stray_fds: Vec<String> = Vec::new();
    let mut out = Vec::with_capacity(events.len());
    for l in events {
        let line = ev_body(l);
        let mut toks: Vec<String> = line.split(' ').map(|t| t.to_string()).collect();
        let head = toks.first().cloned().unwrap_or_default();
        if head.starts_with("open#") {
            let path = toks.get(1).cloned().unwrap_or_default();
            let stray = !artefacts.iter().any(|a| a.as_str() == path.as_str());
            if stray {
                toks[1] = "<stray>".to_string();
                if let Some(fd) = toks.last().filter(|t| t.starts_with("fd")) {
                    stray_fds.push(fd.clone());
                }
            }
            out.push(toks.join(" "));
        } else if head.starts_with("meta#") {
            for t in toks.iter_mut().skip(2) {
                if t == "->" || t == "ok" || t == "CRASH" || t.starts_with("fd") || (t.starts_with('E') && t.len() <= 7 && t.chars().all(|c| c.is_ascii_uppercase())) {
                    continue;
                }
                if !artefacts.iter().any(|a| a.as_str() == t.as_str()) {
                    *t = "<stray>".to_string();
                }
            }
            out.push(toks.join(" "));
        } else if head.starts_with("write#") || head.starts_with("read#") {
            let fd = toks.get(1).cloned().unwrap_or_default();
            if stray_fds.contains(&fd) {
                let res = toks.last().cloned().unwrap_or_default();
                let res = if res.parse::<i64>().is_ok() { "n".to_string() } else { res };
                out.push(format!("{} <stray> -> {}", head.split('#').next().unwrap_or(""), res));
            } else {
                out.push(line.to_string());
            }
        } else if head == "close" {
            let fd = toks.get(1).cloned().unwrap_or_default();
            if let Some(pos) = stray_fds.iter().position(|f| *f == fd) {
                stray_fds.remove(pos);
                out.push("close <stray>".to_string());
            } else {
                out.push(line.to_string());
            }
        } else {
            out.push(line.to_string());
        }
    }
    out
}

/// The calendar day the library calls "today" (`DateRange::default()`, i.e. chrono's local date)
/// at the simulated instant of a step: same chrono code, same TZ database, evaluated in-process.
pub fn library_today(clock: i64, tz: &str) -> Option<NaiveDate> {
    // chrono caches the zone for a second after each look-up and would ignore a changed TZ, so the
    // conversion runs in a fresh process of this harness (`c19 today <clock>`, TZ in its environment)
    let exe = std::env::current_exe().ok()?;
    let out = Command::new(exe).arg("today").arg(clock.to_string()).env("TZ", tz).stdin(Stdio::null()).stderr(Stdio::null()).output().ok()?;
    String::from_utf8_lossy(&out.stdout).trim().parse().ok()
}

/// body of `c19 today <clock>`
pub fn print_today(clock: i64) {
    use chrono::TimeZone;
    if let Some(d) = chrono::Local.timestamp_opt(clock, 0).single() {
        println!("{}", d.date_naive());
    }
}

fn sane_config(c: &ParamsConfig) -> Result<(), String> {
    let dr = match &c.date_range {
        Some(d) => d,
        None => return Err("no date range in file".into()),
    };
    let n = (*dr.end_date() - *dr.start_date()).num_days() + 1;
    if !(1..=400).contains(&n) {
        return Err(format!("decoded range has {n} days"));
    }
    use chrono::Datelike;
    if dr.start_date().year() < 1000 || dr.end_date().year() > 3000 {
        return Err("decoded year outside 1000..3000".into());
    }
    for (name, m, lo, hi) in [("angles", &c.params.angles, -30.0, 90.0), ("intervals", &c.params.intervals, -200.0, 1440.0), ("minutes", &c.params.minutes, -1500.0, 1500.0)] {
        for (k, v) in m {
            if !v.is_finite() || *v < lo || *v > hi {
                return Err(format!("decoded {name}[{k}] = {v} outside the harness's safe bounds"));
            }
        }
    }
    Ok(())
}

pub static QUIET_PANICS: std::sync::atomic::AtomicBool = std::sync::atomic::AtomicBool::new(false);

fn reference(c: &ParamsConfig) -> Option<Times> {
    let dr = c.date_range.clone()?;
    let params = c.params.clone();
    let loc = c.location;
    QUIET_PANICS.store(true, std::sync::atomic::Ordering::SeqCst);
    let r = catch_unwind(AssertUnwindSafe(|| prayer_times_dt_rng(&params, loc, &dr))).ok();
    QUIET_PANICS.store(false, std::sync::atomic::Ordering::SeqCst);
    r
}

/// does the text show a clock time (h:mm)?
/// What is compared byte for byte when the sink is the terminal: the listing itself - the lines that
/// name a Hijri month or a prayer - not informational lines around it (a title, "saved parameters
/// to ...", a summary that echoes the coordinates).
fn listing_lines(stdout: &[u8]) -> Vec<u8> {
    let months: Vec<String> = (1u8..=12).filter_map(|m| islamic_prayer_times::HijriMonth::try_from(m).ok()).map(|m| m.to_string()).collect();
    let prayers: Vec<String> = [Prayer::Imsaak, Prayer::Fajr, Prayer::Shurooq, Prayer::Dhuhr, Prayer::Asr, Prayer::Maghrib, Prayer::Isha].iter().map(|p| p.to_string()).collect();
    let text = String::from_utf8_lossy(stdout);
    let mut out = Vec::new();
    for l in text.lines() {
        if months.iter().any(|m| l.contains(m.as_str())) || prayers.iter().any(|p| l.contains(p.as_str())) {
            out.extend_from_slice(l.as_bytes());
            out.push(b'\n');
        }
    }
    out
}

/// a message on stdout is not "something computed"; a listing is
fn stdout_shows_results(stdout: &[u8]) -> bool {
    let t = String::from_utf8_lossy(stdout);
    [Prayer::Fajr, Prayer::Dhuhr, Prayer::Asr, Prayer::Maghrib, Prayer::Isha].iter().any(|p| t.lines().any(|l| l.contains(&p.to_string()) && shows_a_time(l)))
}

/// clock times a line shows, as (hour 0..23, minute, optional second); understands `5:26 AM`,
/// `05:26 am`, `17:35`, `17:35:20`
fn times_shown(l: &str) -> Vec<(u32, u32, Option<u32>)> {
    let b = l.as_bytes();
    let mut out = Vec::new();
    let mut i = 0;
    while i < b.len() {
        if b[i].is_ascii_digit() && (i == 0 || !b[i - 1].is_ascii_digit()) {
            let hs = i;
            while i < b.len() && b[i].is_ascii_digit() {
                i += 1;
            }
            let hdigits = i - hs;
            if hdigits <= 2 && i + 2 < b.len() && b[i] == b':' && b[i + 1].is_ascii_digit() && b[i + 2].is_ascii_digit() && (i + 3 >= b.len() || !b[i + 3].is_ascii_digit()) {
                let h: u32 = l[hs..i].parse().unwrap_or(99);
                let m: u32 = l[i + 1..i + 3].parse().unwrap_or(99);
                i += 3;
                let mut sec = None;
                if i + 2 < b.len() && b[i] == b':' && b[i + 1].is_ascii_digit() && b[i + 2].is_ascii_digit() {
                    sec = l[i + 1..i + 3].parse().ok();
                    i += 3;
                }
                let rest = l[i..].trim_start().to_ascii_lowercase();
                let h24 = if rest.starts_with("am") || rest.starts_with("a.m") {
                    if h == 12 { 0 } else { h }
                } else if rest.starts_with("pm") || rest.starts_with("p.m") {
                    if h == 12 { 12 } else { h + 12 }
                } else {
                    h
                };
                if h24 < 24 && m < 60 {
                    out.push((h24, m, sec));
                }
                continue;
            }
            continue;
        }
        i += 1;
    }
    out
}

fn shows_a_time(l: &str) -> bool {
    let b = l.as_bytes();
    (0..b.len().saturating_sub(3)).any(|i| b[i].is_ascii_digit() && b[i + 1] == b':' && b[i + 2].is_ascii_digit() && b[i + 3].is_ascii_digit())
}

/// Structural check of the terminal listing: for every date of the range there is a line naming
/// its Hijri date (the library's own rendering) and, between it and the next such line, for each
/// of the seven prayers a line that names the prayer and shows the library's rendering of its
/// time - or, where the time does not exist, names the prayer and shows no time. Additional lines,
/// spacing, order of dates and order of entries are the tool's business.
fn check_listing(stdout: &[u8], exp: &Times) -> Result<(), String> {
    let text = String::from_utf8_lossy(stdout);
    let lines: Vec<&str> = text.lines().map(|l| l.trim()).filter(|l| !l.is_empty()).collect();
    let hijri: Vec<(NaiveDate, String)> = exp.keys().map(|d| (*d, HijriDate::from(*d).to_string())).collect();
    // a header line names a Hijri date: the month's name (the library's rendering) together with the
    // day and the year as whole numbers - in whatever arrangement
    let names = |l: &str, d: &NaiveDate| -> bool {
        let h = HijriDate::from(*d);
        let nums: Vec<u64> = l.split(|c: char| !c.is_ascii_digit()).filter(|t| !t.is_empty()).filter_map(|t| t.parse().ok()).collect();
        l.contains(&h.month().to_string()) && nums.contains(&(h.day() as u64)) && nums.contains(&(h.year() as u64))
    };
    // header lines: (line index, date)
    let mut headers: Vec<(usize, NaiveDate)> = Vec::new();
    for (i, l) in lines.iter().enumerate() {
        let cands: Vec<&NaiveDate> = exp.keys().filter(|d| names(l, d)).collect();
        // a line such as "Rajab 12, 1445 ... (January 24, 2024)" could name two dates of a long range by
        // coincidence of numbers; prefer the library's full rendering to break the tie
        let pick = if cands.len() > 1 {
            cands
                .iter()
                .find(|d| l.contains(&HijriDate::from(***d).to_string()))
                .copied()
                .or_else(|| {
                    // otherwise: the candidate whose day number stands nearest to the month's name
                    let month = HijriDate::from(*cands[0]).month().to_string();
                    let mpos = l.find(&month).unwrap_or(0) as i64;
                    let mut best: Option<(i64, u64)> = None;
                    let b = l.as_bytes();
                    let mut i = 0;
                    while i < b.len() {
                        if b[i].is_ascii_digit() {
                            let st = i;
                            while i < b.len() && b[i].is_ascii_digit() {
                                i += 1;
                            }
                            if let Ok(v) = l[st..i].parse::<u64>() {
                                let dist = (st as i64 - mpos).abs().min((i as i64 - mpos).abs());
                                if v <= 30 && best.map(|(bd, _)| dist < bd).unwrap_or(true) {
                                    best = Some((dist, v));
                                }
                            }
                        } else {
                            i += 1;
                        }
                    }
                    best.and_then(|(_, v)| cands.iter().find(|d| HijriDate::from(***d).day() as u64 == v).copied())
                })
                .or(cands.first().copied())
        } else {
            cands.first().copied()
        };
        if let Some(d) = pick {
            headers.push((i, *d));
        }
    }
    for (d, h) in &hijri {
        let n = headers.iter().filter(|(_, x)| x == d).count();
        if n == 0 {
            return Err(format!("no line shows the Hijri date of {d} ({h})"));
        }
        if n > 1 {
            return Err(format!("date {d} listed {n} times"));
        }
    }
    // dates beyond the range: lines that end like a Hijri date of the library but match no expected date
    if let (Some(first), Some(last)) = (exp.keys().next(), exp.keys().next_back()) {
        // the days just outside the range, named the same way
        let outside: Vec<NaiveDate> = [first.pred_opt(), last.succ_opt()].into_iter().flatten().collect();
        let stray = lines.iter().enumerate().filter(|(i, l)| !headers.iter().any(|(hi, _)| hi == i) && outside.iter().any(|d| names(l, d))).count();
        if stray > 0 {
            return Err(format!("{stray} line(s) look like the Hijri date of a day outside the range ({} dates expected)", exp.len()));
        }
    }
    for (k, (start, date)) in headers.iter().enumerate() {
        let end = headers.iter().map(|(i, _)| *i).filter(|i| i > start).min().unwrap_or(lines.len());
        let _ = k;
        let block = &lines[start + 1..end];
        for (prayer, t) in &exp[date] {
            let name = prayer.to_string();
            let cands: Vec<&&str> = block.iter().filter(|l| l.contains(&name)).collect();
            if cands.is_empty() {
                return Err(format!("{date}: no line for {name}"));
            }
            let ok = match t {
                Ok(pt) => {
                    // the same time of day in whatever notation (12 h with AM/PM, 24 h, with or without
                    // seconds, zero-padded or not); the "extreme" marker present exactly when the flag is set
                    use chrono::Timelike;
                    let (h, m, sec) = (pt.time.hour(), pt.time.minute(), pt.time.second());
                    cands.iter().any(|line| {
                        let shown = times_shown(line);
                        let time_ok = shown.iter().any(|(hh, mm, ss)| *hh == h && *mm == m && ss.map(|x| x == sec).unwrap_or(true));
                        let lower = line.to_ascii_lowercase();
                        time_ok && (pt.extreme == lower.contains("extreme"))
                    })
                }
                Err(()) => cands.iter().any(|line| !shows_a_time(line)),
            };
            if !ok {
                let want = match t {
                    Ok(pt) => format!("{:?}", pt.to_string().trim()),
                    Err(()) => "no time (the entry does not exist on that day)".to_string(),
                };
                return Err(format!("{date} {name}: line {:?} does not show {want}", cands[0]));
            }
        }
    }
    Ok(())
}

pub struct Learned {
    /// config key -> (sink is file, bytes) of the first exit-0 step that produced output for it
    canon: HashMap<(String, bool), (usize, Vec<u8>)>,
}

pub fn run_pass(ctx: &Ctx, sc: &Scenario, inject: bool) -> PassResult {
    let mut res = PassResult::default();
    let wdir = ctx.dir.join("w");
    let _ = std::fs::remove_dir_all(&ctx.dir);
    std::fs::create_dir_all(wdir.join("home")).unwrap();
    std::fs::create_dir_all(wdir.join("tmp")).unwrap();
    let mut learned = Learned { canon: HashMap::new() };
    let mut digest_bytes: Vec<u8> = Vec::new();
    let mut all_viol: Vec<Violation> = Vec::new();
    let mut prev_clock: Option<i64> = None;
    let mut disk_fault_on: HashMap<String, String> = HashMap::new();
    // parameter file name -> (hash of its bytes, step that wrote it, sink is a file, that step's output)
    let mut written: HashMap<String, (u64, usize, bool, Vec<u8>)> = HashMap::new();

    'steps: for (k, step0) in sc.steps.iter().enumerate() {
        let mut step = step0.clone();
        let eff_inputs = step.inputs.clone().unwrap_or_else(|| sc.inputs.clone());
        let flags = match flag_cfg(&eff_inputs) {
            Ok(f) => f,
            Err(e) => {
                let class = if e.starts_with("VALID:") { "O1-valid-input-rejected" } else { "harness" };
                all_viol.push(Violation { step: k, class: class.into(), message: e });
                break 'steps;
            }
        };
        if !inject {
            step.faults.clear();
        }
        let mut rec = StepRecord::default();
        // ---- the disk acts between steps
        for e in sc.edits.iter().filter(|e| e.before_step == k) {
            if e.fault && !inject {
                continue;
            }
            match apply_edit(&wdir, e) {
                Ok(how) => {
                    bump(&mut res.probes.disk_edits, &e.kind);
                    if e.fault {
                        disk_fault_on.insert(e.file.clone(), format!("{}: {how}", e.kind));
                    } else if e.kind.starts_with("set-") {
                        // an out-of-range / malformed value put there by the scenario: must be refused
                        disk_fault_on.insert(e.file.clone(), format!("edit: {how}"));
                    } else {
                        // a hand edit: the expectation follows a strict decode of the edited bytes
                        disk_fault_on.insert(e.file.clone(), format!("hand: {how}"));
                    }
                }
                Err(why) => {
                    if !e.fault {
                        // the scenario's own edit could not be applied (value not unique / file torn by an earlier fault)
                        rec.skipped = Some(format!("edit not applicable: {why}"));
                        res.steps.push(rec);
                        break 'steps;
                    }
                }
            }
        }
        let before = read_dir_files(&wdir);

        // ---- expectation that can be known before the step runs
        #[derive(Debug)]
        enum Expect {
            Reject(String),
            Undecodable(String),
            Config(Box<ParamsConfig>),
            FromFlags,
        }
        let expect = match step.kind.as_str() {
            "R" => Expect::Reject(format!("--{}={:?}", step.bad.as_ref().map(|b| b.0.as_str()).unwrap_or("?"), step.bad.as_ref().map(|b| b.1.as_str()).unwrap_or("?"))),
            "B" if disk_fault_on.get(step.input.as_deref().unwrap_or("")).map(|w| w.starts_with("edit")).unwrap_or(false) => {
                // the scenario itself put an out-of-range / malformed value into the file: whatever
                // the library's deserialiser thinks of it, the tool must refuse it
                res.probes.rejects_via_file += 1;
                Expect::Reject(format!("input file with {}", disk_fault_on[step.input.as_deref().unwrap_or("")]))
            }
            "B" => {
                let name = step.input.clone().unwrap_or_default();
                match before.get(&name) {
                    None => Expect::Undecodable("input file absent".into()),
                    Some(bytes) => match std::str::from_utf8(bytes).map_err(|e| e.to_string()).and_then(|s| serde_json::from_str::<ParamsConfig>(s).map_err(|e| e.to_string())) {
                        Err(e) => Expect::Undecodable(e),
                        Ok(c) => Expect::Config(Box::new(c)),
                    },
                }
            }
            _ => Expect::FromFlags,
        };
        if let Expect::Config(c) = &expect {
            if let Err(why) = sane_config(c) {
                res.probes.skipped_unsafe_config += 1;
                rec.skipped = Some(format!("decoded configuration not run: {why}"));
                res.steps.push(rec);
                break 'steps;
            }
        }
        if let Some(why) = disk_fault_on.get(step.input.as_deref().unwrap_or("")) {
            if why.starts_with("flip") {
                match &expect {
                    Expect::Config(_) => res.probes.flip_still_decodes += 1,
                    _ => res.probes.flip_undecodable += 1,
                }
            }
            if why.starts_with("truncate") || why.starts_with("zero-tail") {
                res.probes.torn_file_reread += 1;
            }
        }
        if step.kind == "B" && step.faults.is_empty() {
            if let Some(b) = before.get(step.input.as_deref().unwrap_or("")) {
                if serde_json::from_slice::<serde_json::Value>(b).is_err() && !disk_fault_on.contains_key(step.input.as_deref().unwrap_or("")) {
                    res.probes.torn_file_reread += 1; // torn by a crashed / failed earlier step
                }
            }
        }
        rec.expectation = match &expect {
            Expect::Reject(r) => format!("reject {r}"),
            Expect::Undecodable(e) => format!("undecodable input: {e}"),
            Expect::Config(_) => "config from file".into(),
            Expect::FromFlags => "config from flags".into(),
        };

        // ---- run the real binary
        let argv = argv_for(sc, &step, &wdir);
        rec.argv = argv.iter().map(|a| a.replace(&*wdir.to_string_lossy(), "$W")).collect();
        for f in &step.faults {
            bump(&mut res.probes.faults_configured, &format!("{}:{}", f.op, f.kind));
        }
        let child = run_child(ctx, &wdir, &argv, &step, k);
        let after = read_dir_files(&wdir);
        // the scenario's own artefacts: names passed as -p / -o / -i by some step
        let artefacts: Vec<&String> = sc.steps.iter().flat_map(|s| [s.save_params.as_ref(), s.output.as_ref(), s.input.as_ref()]).flatten().collect();
        rec.exit = child.exit;
        rec.signal = child.signal;
        rec.timed_out = child.timed_out;
        rec.threads = child.events.iter().filter(|l| l.contains("pthread_create")).count() as u32;
        // a step that created threads is not under this simulator's schedule control: its threads
        // draw hash seeds concurrently, so those lines are excluded from the (order-sensitive) record
        rec.events = mask_stray(&child.events, &artefacts)
            .into_iter()
            .filter(|l| rec.threads == 0 || !(l.starts_with("getrandom") || l.starts_with("pthread_create")))
            .collect();
        // several threads of the step did workload I/O (e.g. a background writer): the order of the
        // log is then not the simulator's doing; keep it order-insensitive for the record
        rec.multi_thread_io = rec.events.iter().any(|l| l.starts_with("multi-thread-io"));
        if rec.multi_thread_io {
            res.probes.multi_thread_io_steps += 1;
            let mut ev: Vec<String> = rec.events.iter().map(|l| {
                // drop the per-kind operation index ("write#12" -> "write")
                let mut t: Vec<String> = l.split(' ').map(|x| x.to_string()).collect();
                if let Some(h) = t.first_mut() {
                    if let Some(p) = h.find('#') {
                        h.truncate(p);
                    }
                }
                t.join(" ")
            }).collect();
            ev.sort();
            rec.events = ev;
        }
        rec.fired = fired_faults(&child.events);
        // stdout may echo a path of the scratch directory (whose name contains a pid): normalised
        // for the record, never for the oracles
        let stdout_norm = String::from_utf8_lossy(&child.stdout).replace(&*wdir.to_string_lossy(), "$W");
        rec.stdout_len = stdout_norm.len();
        rec.stdout_hash = format!("{:016x}", fnv1a(stdout_norm.as_bytes()));
        rec.files_after = after.iter().filter(|(n, _)| artefacts.contains(n)).map(|(n, b)| (n.clone(), format!("{}:{:016x}", b.len(), fnv1a(b)))).collect();
        rec.ops = summarise_ops(&child.events, &step);
        res.probes.steps += 1;
        if rec.threads > 0 {
            res.probes.multithreaded_steps += 1;
        }
        for f in &rec.fired {
            bump(&mut res.probes.faults_fired, f);
        }
        let ok0 = child.exit == Some(0) && !child.timed_out;
        if ok0 {
            res.probes.steps_exit0 += 1;
        } else {
            res.probes.steps_nonzero += 1;
        }
        let hard_fired = rec.fired.iter().any(|f| !is_transparent(f));
        let transp_fired = rec.fired.iter().any(|f| is_transparent(f));
        if hard_fired && !ok0 {
            res.probes.hard_fault_then_nonzero += 1;
        }
        for f in &step.faults {
            if f.kind == "crash" || f.kind == "tear" {
                if rec.fired.iter().any(|x| x.ends_with("CRASH") || x.ends_with("TEAR")) {
                    // which target did it land in?
                    for (t, v) in &rec.ops {
                        for (op, first, cnt) in v {
                            if *op == f.op && f.n >= *first && f.n < first + cnt {
                                match t.as_str() {
                                    "params" => res.probes.crash_in_params += 1,
                                    "output" => res.probes.crash_in_output += 1,
                                    "stdout" => res.probes.crash_in_stdout += 1,
                                    _ => {}
                                }
                            }
                        }
                    }
                }
            }
        }
        macro_rules! viol {
            ($class:expr, $msg:expr) => {
                all_viol.push(Violation { step: k, class: $class.to_string(), message: $msg })
            };
        }

        // ---- oracle 7: nothing the step was not asked to write has changed
        let mut may_touch: Vec<String> = Vec::new();
        if let Some(o) = &step.output {
            may_touch.push(o.clone());
        }
        if let Some(p) = &step.save_params {
            may_touch.push(p.clone()); // with -i the tool ignores -p; either behaviour is accepted
        }
        // only the scenario's own artefacts (names passed as -p / -o / -i by some step) are protected;
        // stray files (a temporary file left by a crashed atomic save) are nobody's promise
        for (name, b) in &before {
            if may_touch.contains(name) || !artefacts.contains(&name) {
                continue;
            }
            match after.get(name) {
                Some(a) if a == b => {}
                Some(_) => viol!("O7-clobbered", format!("file {name} was modified by a step that was not asked to write it")),
                None => viol!("O7-clobbered", format!("file {name} was removed by a step that was not asked to write it")),
            }
        }
        for name in after.keys() {
            if !before.contains_key(name) && !may_touch.contains(name) {
                // e.g. the temporary file of an atomic save left behind by a crash: the property
                // says nothing about it, so it is only counted
                res.probes.extra_files_seen += 1;
            }
        }

        if child.timed_out {
            // does the library terminate on this configuration? (if it does not, the worker stalls
            // here and the driver skips the scenario: that is C07's concern, not C19's)
            viol!("T-timeout", format!("step did not finish within {STEP_TIMEOUT_S} s"));
            res.steps.push(rec);
            break 'steps;
        }

        // ---- rejected inputs
        match &expect {
            Expect::Reject(what) => {
                if step.kind == "R" {
                    res.probes.rejects_checked += 1;
                }
                if ok0 {
                    viol!("O4-not-rejected", format!("{what} accepted: exit status 0"));
                }
                if stdout_shows_results(&child.stdout) {
                    viol!("O4-not-rejected", format!("{what}: prayer-time entries on stdout ({} bytes)", child.stdout.len()));
                }
                if let Some(ev) = created_something(&child.events, &artefacts) {
                    viol!("O4-not-rejected", format!("{what}: a file was opened for writing before the rejection ({ev})"));
                }
                res.steps.push(rec);
                continue;
            }
            Expect::Undecodable(why) => {
                if ok0 {
                    viol!("O6-garbage-accepted", format!("input file does not decode ({why}) but the step exited 0"));
                }
                res.steps.push(rec);
                continue;
            }
            _ => {}
        }

        // ---- the configuration this step stands for
        if transp_fired && !hard_fired && ok0 {
            res.probes.transparent_fault_then_exit0 += 1;
        }
        let p_after: Option<Result<ParamsConfig, String>> = if step.kind == "A" {
            step.save_params.as_ref().map(|n| match after.get(n) {
                None => Err("parameter file absent".to_string()),
                Some(b) => std::str::from_utf8(b).map_err(|e| e.to_string()).and_then(|s| serde_json::from_str::<ParamsConfig>(s).map_err(|e| e.to_string())),
            })
        } else {
            None
        };
        let cfg: Option<ParamsConfig> = match &expect {
            Expect::Config(c) => Some(ParamsConfig { params: c.params.clone(), location: c.location, date_range: c.date_range.clone() }),
            _ => {
                // from flags, omitted fields from the parameter file this very step saved
                let pa = p_after.as_ref().and_then(|r| r.as_ref().ok());
                let params = flags.params.clone().or_else(|| pa.map(|p| p.params.clone()));
                let elev = flags.elev.or_else(|| pa.map(|p| p.location.coords.elevation));
                let range = match (flags.start, flags.end) {
                    (Some(s), Some(e)) => Some(DateRange::from(s..=e)),
                    (Some(s), None) => Some(DateRange::from(s..=s)),
                    // dates omitted: the day the library itself calls today at this simulated instant
                    _ => library_today(step.env.clock, &step.env.tz).map(|d| DateRange::from(d..=d)).or_else(|| pa.and_then(|p| p.date_range.clone())),
                };
                match (params, elev, range) {
                    (Some(params), Some(elev), Some(range)) => Some(ParamsConfig {
                        params,
                        location: Location { coords: Coordinates::new(flags.lat, flags.lon, elev), gmt: flags.gmt },
                        date_range: Some(range),
                    }),
                    _ => None,
                }
            }
        };
        if step.kind == "A" && flags.start.is_none() {
            res.probes.defaulted_dates += 1;
            if let (Some(c), "UTC") = (&cfg, step.env.tz.as_str()) {
                let today = chrono::DateTime::from_timestamp(step.env.clock, 0).map(|d| d.date_naive());
                if c.date_range.as_ref().map(|d| Some(*d.start_date()) == today).unwrap_or(false) {
                    res.probes.defaulted_today_matches_utc_clock += 1;
                }
            }
        }

        if !ok0 {
            // failure is acceptable after a fault, or where the library itself panics
            if step.kind == "B" && rec.fired.is_empty() {
                if let Some(name) = &step.input {
                    if let (Some(w), Some(pb)) = (written.get(name), before.get(name)) {
                        if w.0 == fnv1a(pb) {
                            viol!("O3-not-reproducible", format!("feeding back the untouched parameter file written by step {} fails (exit {:?}, signal {:?})", w.1, child.exit, child.signal));
                            res.steps.push(rec);
                            continue;
                        }
                    }
                }
            }
            if step.kind == "B" && disk_fault_on.get(step.input.as_deref().unwrap_or("")).map(|w| w.starts_with("hand:")).unwrap_or(false) {
                // a hand-edited (though still meaningful) file that the tool refuses is not an "accepted
                // command line"; only an accepted one must be answered correctly
                res.probes.hand_edited_file_refused += 1;
                res.steps.push(rec);
                continue;
            }
            let lib_panics = cfg.as_ref().map(|c| reference(c).is_none());
            if !rec.fired.is_empty() {
                if transp_fired && !hard_fired && lib_panics == Some(false) {
                    // a short transfer or an interrupted call is not an error: a tool that dies on
                    // one does not answer an accepted command line (seeded c19-w). Hard faults
                    // (errno, crash, tear) stay accepted below.
                    res.probes.transparent_fault_then_nonzero += 1;
                    viol!("O1-unexpected-failure", format!("exit {:?} signal {:?} after only transparent I/O conditions ({}) on a configuration the library computes", child.exit, child.signal, rec.fired.join(",")));
                    res.steps.push(rec);
                    continue;
                }
                if lib_panics == Some(true) {
                    res.probes.library_reference_panicked += 1;
                }
                res.steps.push(rec);
                continue;
            }
            match lib_panics {
                Some(true) => {
                    res.probes.library_reference_panicked += 1;
                }
                Some(false) => viol!("O1-unexpected-failure", format!("exit {:?} signal {:?} with no fault injected, on a configuration the library computes", child.exit, child.signal)),
                None => viol!("O1-unexpected-failure", format!("exit {:?} signal {:?} with no fault injected (configuration unknown: parameter file not readable)", child.exit, child.signal)),
            }
            res.steps.push(rec);
            continue;
        }

        // ---- exit 0: everything asked for is complete and correct (oracles 1, 2, 3, 5)
        let o5 = if rec.fired.is_empty() { "" } else { " [after injected fault(s)]" };
        let mut p_suspect: Option<String> = None;
        if let Some(pa) = &p_after {
            res.probes.params_file_checks += 1;
            match pa {
                // not yet a verdict: whether the file can be fed back is decided by feeding it back (below)
                Err(e) => p_suspect = Some(e.clone()),
                Ok(p) => {
                    // What the file *contains* is the tool's business: the property only promises that
                    // feeding it back reproduces the output (checked behaviourally below, O3). A decoded
                    // content that differs from the flags is therefore only counted.
                    let mut differs = val(&p.location.coords.latitude) != val(&flags.lat) || val(&p.location.coords.longitude) != val(&flags.lon) || val(&p.location.gmt) != val(&flags.gmt);
                    if let Some(e) = flags.elev {
                        differs |= val(&p.location.coords.elevation) != val(&e);
                    }
                    if let Some(fp) = &flags.params {
                        differs |= val(&p.params) != val(fp);
                    }
                    if let Some(s) = flags.start {
                        differs |= p.date_range.as_ref() != Some(&DateRange::from(s..=flags.end.unwrap_or(s)));
                    }
                    if differs {
                        res.probes.params_file_differs_from_flags += 1;
                    }
                    // key order of the first map in the file (reach probe for the hash seed)
                    if let Some(b) = after.get(step.save_params.as_deref().unwrap_or("")) {
                        let t = String::from_utf8_lossy(b);
                        if let Some(pos) = t.find("\"minutes\":{") {
                            let seg: String = t[pos..].chars().take_while(|c| *c != '}').filter(|c| c.is_ascii_alphabetic() || *c == ',').collect();
                            rec.param_key_order = Some(seg.clone());
                            res.key_orders.push(seg);
                        }
                    }
                }
            }
        }
        // ---- the bytes this step produced
        let sink_file = step.output.is_some();
        let out_bytes: Option<Vec<u8>> = match &step.output {
            Some(o) => after.get(o).cloned(),
            None => Some(listing_lines(&child.stdout)),
        };
        if step.output.is_some() && out_bytes.is_none() {
            viol!("O1-output", format!("exit 0 but the output file {} does not exist{o5}", step.output.clone().unwrap_or_default()));
        }
        let out_bytes = out_bytes.unwrap_or_default();

        // ---- O3 (behavioural round trip): a reload of a parameter file that an exit-0 run wrote, and
        // that nobody touched since, reproduces that run's output byte for byte
        if step.kind == "B" {
            if let (Some(name), true) = (&step.input, rec.fired.is_empty() || true) {
                if let (Some(w), Some(pb)) = (written.get(name), before.get(name)) {
                    if w.0 == fnv1a(pb) && w.2 == sink_file {
                        res.probes.reload_identity_checks += 1;
                        if w.3 != out_bytes {
                            let at = w.3.iter().zip(out_bytes.iter()).position(|(a, b)| a != b).unwrap_or(w.3.len().min(out_bytes.len()));
                            viol!("O3-not-reproducible", format!("feeding back the parameter file written by step {} does not reproduce its output (first difference at byte {at}; {} vs {} bytes){o5}", w.1, w.3.len(), out_bytes.len()));
                        }
                    }
                }
            }
        }
        // (a reload that is also given -p may or may not write that file; if it is there afterwards, it
        // is a parameter file written by an exit-0 run like any other)
        if let Some(name) = &step.save_params {
            if let Some(pb) = after.get(name) {
                written.insert(name.clone(), (fnv1a(pb), k, sink_file, out_bytes.clone()));
            }
        }
        // a verification reload of our own when the scenario does not reload this file next
        // (fault-free pass only): other hash seed, two days later, another zone
        if p_suspect.is_some() && !step.save_params.as_ref().map(|n| after.contains_key(n)).unwrap_or(false) {
            viol!("O2-params-file", format!("exit 0 but the parameter file asked for with -p does not exist{o5}"));
        }
        if (!inject || p_suspect.is_some()) && step.save_params.as_ref().map(|n| after.contains_key(n)).unwrap_or(false) {
            let pname = step.save_params.clone().unwrap();
            let next_reloads = sc.steps.get(k + 1).map(|n| n.kind == "B" && n.input.as_deref() == Some(pname.as_str())).unwrap_or(false);
            if !next_reloads || p_suspect.is_some() {
                let hidden = Step {
                    kind: "B".into(),
                    bad: None,
                    save_params: None,
                    input: Some(pname.clone()),
                    output: if sink_file { Some("__reload_out.json".into()) } else { None },
                    env: crate::model::Env { hash_seed: step.env.hash_seed.wrapping_add(977), clock: step.env.clock + 2 * 86_400 + 3_600, tz: if step.env.tz == "UTC" { "Asia/Tokyo".into() } else { "UTC".into() }, cores: step.env.cores },
                    faults: vec![],
                    inputs: None,
                };
                let hargv = argv_for(sc, &hidden, &wdir);
                let hc = run_child(ctx, &wdir, &hargv, &hidden, 100 + k);
                res.probes.verification_reloads += 1;
                res.probes.steps += 1;
                let hout = if sink_file { std::fs::read(wdir.join("__reload_out.json")).unwrap_or_default() } else { listing_lines(&hc.stdout) };
                let _ = std::fs::remove_file(wdir.join("__reload_out.json"));
                if hc.exit != Some(0) || hc.timed_out {
                    match &p_suspect {
                        Some(e) => viol!("O2-params-file", format!("exit 0 but the saved parameter file does not decode ({e}) and feeding it back fails (exit {:?}, signal {:?}){o5}", hc.exit, hc.signal)),
                        None => viol!("O3-not-reproducible", format!("feeding back the parameter file this step wrote fails (exit {:?}, signal {:?})", hc.exit, hc.signal)),
                    }
                } else if p_suspect.is_some() && hout == out_bytes {
                    // a strict decode fails, yet the tool reads its own file back and reproduces the
                    // output: a lenient reader; the promise is kept
                    res.probes.lenient_reader_accepted += 1;
                } else if hout != out_bytes {
                    let at = hout.iter().zip(out_bytes.iter()).position(|(a, b)| a != b).unwrap_or(hout.len().min(out_bytes.len()));
                    viol!("O3-not-reproducible", format!("feeding back the parameter file this step wrote (two days later, other zone and hash seed) does not reproduce its output (first difference at byte {at}; {} vs {} bytes)", out_bytes.len(), hout.len()));
                }
            }
        }

        let cfg = match cfg {
            Some(c) => Some(c),
            None => {
                // dates defaulted and not recoverable from the parameter file: take them from the output
                // itself when it is JSON (weak but sound); otherwise the expectation is unknown
                let pa = p_after.as_ref().and_then(|r| r.as_ref().ok());
                let params = flags.params.clone().or_else(|| pa.map(|p| p.params.clone()));
                let elev = flags.elev.or_else(|| pa.map(|p| p.location.coords.elevation));
                let dates = if sink_file { serde_json::from_slice::<Times>(&out_bytes).ok().and_then(|t| Some((*t.keys().next()?, *t.keys().next_back()?))) } else { None };
                match (params, elev, dates) {
                    (Some(params), Some(elev), Some((a, b))) if (b - a).num_days() < 400 => Some(ParamsConfig { params, location: Location { coords: Coordinates::new(flags.lat, flags.lon, elev), gmt: flags.gmt }, date_range: Some(DateRange::from(a..=b)) }),
                    _ => None,
                }
            }
        };
        let cfg = match cfg {
            Some(c) => c,
            None => {
                res.probes.expectation_unknown += 1;
                prev_clock = Some(step.env.clock);
                res.steps.push(rec);
                continue;
            }
        };
        let exp = match reference(&cfg) {
            Some(e) => e,
            None => {
                res.probes.library_reference_panicked += 1;
                viol!("O1-output", "exit 0 on a configuration for which the library panics".to_string());
                res.steps.push(rec);
                continue;
            }
        };
        res.probes.days_computed += exp.len() as u64;
        if step.output.is_some() {
            res.probes.output_file_checks += 1;
            if after.contains_key(step.output.as_deref().unwrap_or("")) {
                match serde_json::from_slice::<Times>(&out_bytes) {
                    Err(e) => viol!("O1-output", format!("exit 0 but the output file does not decode: {e} ({} bytes){o5}", out_bytes.len())),
                    Ok(got) => {
                        if got != exp {
                            let missing = exp.keys().filter(|d| !got.contains_key(d)).count();
                            let extra = got.keys().filter(|d| !exp.contains_key(d)).count();
                            let diff = exp.iter().filter(|(d, v)| got.get(d).map(|g| g != *v).unwrap_or(false)).map(|(d, _)| d.to_string()).next();
                            let dflt = if step.kind == "A" && flags.start.is_none() { format!(" (dates were defaulted: the library's 'today' at the simulated clock in {} is {}; the output is keyed {:?})", step.env.tz, exp.keys().next().map(|d| d.to_string()).unwrap_or_default(), got.keys().next().map(|d| d.to_string())) } else { String::new() };
                            viol!("O1-output", format!("output file differs from the library's result: {} dates expected, {} found; {missing} missing, {extra} extra, first differing date {diff:?}{dflt}{o5}", exp.len(), got.len()));
                        }
                    }
                }
            }
        } else {
            res.probes.listing_checks += 1;
            if let Err(e) = check_listing(&child.stdout, &exp) {
                viol!("O1-output", format!("terminal listing: {e}{o5}"));
            }
        }
        // byte identity across steps that stand for the same configuration
        let key = (cfg_key(&cfg), sink_file);
        match learned.canon.get(&key) {
            None => {
                learned.canon.insert(key, (k, out_bytes));
            }
            Some((first, bytes)) => {
                res.probes.byte_identity_checks += 1;
                if *bytes != out_bytes {
                    let at = bytes.iter().zip(out_bytes.iter()).position(|(a, b)| a != b).unwrap_or(bytes.len().min(out_bytes.len()));
                    viol!("O3-not-reproducible", format!("output of step {k} differs from the output of step {first} for the same configuration (first difference at byte {at}; {} vs {} bytes){o5}", bytes.len(), out_bytes.len()));
                }
                if let Some(pc) = prev_clock {
                    let (d0, d1) = (pc.div_euclid(86_400), step.env.clock.div_euclid(86_400));
                    if d0 != d1 {
                        res.probes.roundtrip_across_midnight += 1;
                    }
                    let y = |t: i64| chrono::DateTime::from_timestamp(t, 0).map(|d| chrono::Datelike::year(&d.date_naive())).unwrap_or(0);
                    if y(pc) != y(step.env.clock) {
                        res.probes.roundtrip_across_year += 1;
                    }
                    if step.env.clock < pc {
                        res.probes.roundtrip_clock_backwards += 1;
                    }
                }
            }
        }
        prev_clock = Some(step.env.clock);
        res.steps.push(rec);
    }
    res.violations = all_viol;
    for s in &res.steps {
        digest_bytes.extend_from_slice(serde_json::to_string(s).unwrap().as_bytes());
    }
    digest_bytes.extend_from_slice(serde_json::to_string(&res.violations).unwrap().as_bytes());
    res.digest = format!("{:016x}", fnv1a(&digest_bytes));
    res
}

/// place the unresolved faults using the operation counts of the fault-free pass
pub fn resolve_faults(sc: &Scenario, strict: &PassResult) -> Scenario {
    let mut out = sc.clone();
    for s in out.steps.iter_mut() {
        s.faults.clear();
    }
    for FaultSpec { step, target, op, at, abs, kind, arg } in &sc.fault_specs {
        let rec = match strict.steps.get(*step) {
            Some(r) => r,
            None => continue,
        };
        if rec.multi_thread_io {
            // operation indices are not reproducible when several threads share the I/O
            continue;
        }
        if let Some(n) = abs {
            let total: i64 = rec.ops.values().flat_map(|v| v.iter()).filter(|(o, _, _)| o == op).map(|(_, _, c)| *c).sum();
            if *n < total {
                out.steps[*step].faults.push(Fault { op: op.clone(), n: *n, kind: kind.clone(), arg: *arg });
            }
            continue;
        }
        let ops = match rec.ops.get(target) {
            Some(o) => o,
            None => continue,
        };
        if let Some((_, first, cnt)) = ops.iter().find(|(o, _, _)| o == op) {
            if *cnt <= 0 {
                continue;
            }
            let n = first + ((*at as i64) * (cnt - 1)) / 1000;
            let f = Fault { op: op.clone(), n, kind: kind.clone(), arg: *arg };
            if !out.steps[*step].faults.iter().any(|x| x.op == f.op && x.n == f.n) {
                out.steps[*step].faults.push(f);
            }
        }
    }
    out
}
