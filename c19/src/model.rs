//! Scenario = a sequence of CLI process steps sharing a scratch directory, the environment the
//! simulator gives each step, the faults it injects and the disk edits between steps.
//! A scenario is a pure function of (VERIF_SEED, run index, tier).

use crate::prng::SplitMix64;
use chrono::{Duration, NaiveDate};
use serde::{Deserialize, Serialize};

#[derive(Serialize, Deserialize, Clone, Debug, PartialEq)]
pub struct Inputs {
    /// clap value name of the method (e.g. "umm-al-qurra"); None = flag omitted
    pub method: Option<String>,
    pub lat: String,
    pub lon: String,
    pub elev: Option<String>,
    pub gmt: String,
    pub start: Option<String>,
    pub end: Option<String>,
}

#[derive(Serialize, Deserialize, Clone, Debug, PartialEq)]
pub struct Env {
    /// seed of the bytes getrandom() returns (HashMap iteration order of the process)
    pub hash_seed: u64,
    /// CLOCK_REALTIME seconds
    pub clock: i64,
    pub tz: String,
    pub cores: u32,
}

/// A fault resolved to an operation index of one step.
#[derive(Serialize, Deserialize, Clone, Debug, PartialEq)]
pub struct Fault {
    /// "open" | "write" | "read"
    pub op: String,
    pub n: i64,
    /// errno name | "short" | "crash" | "tear"
    pub kind: String,
    pub arg: i64,
}

/// A fault before resolution: position as a fraction of the target's operations in the
/// fault-free dry run of the same step.
#[derive(Serialize, Deserialize, Clone, Debug, PartialEq)]
pub struct FaultSpec {
    pub step: usize,
    /// "params" | "output" | "stdout" | "input"
    pub target: String,
    pub op: String,
    /// 0..=1000 (per mille of the target's op range), or exact boundary picks 0 / 1000
    pub at: u32,
    /// sweeps: absolute operation index within the step (target "any"); beyond the step's
    /// operation count the fault is dropped
    #[serde(default)]
    pub abs: Option<i64>,
    pub kind: String,
    pub arg: i64,
}

#[derive(Serialize, Deserialize, Clone, Debug, PartialEq)]
pub struct Step {
    /// "A" compute from flags | "B" compute from the saved file | "R" must be rejected (bad flag value)
    pub kind: String,
    /// R: (flag name without dashes, bad value)
    pub bad: Option<(String, String)>,
    /// -p file name (relative to the scratch directory)
    pub save_params: Option<String>,
    /// -i file name
    pub input: Option<String>,
    /// -o file name; None = listing on stdout
    pub output: Option<String>,
    pub env: Env,
    #[serde(default)]
    pub faults: Vec<Fault>,
    /// flags of this step when they differ from the scenario's (A steps only)
    #[serde(default)]
    pub inputs: Option<Inputs>,
}

#[derive(Serialize, Deserialize, Clone, Debug, PartialEq)]
pub struct DiskEdit {
    /// applied just before this step starts
    pub before_step: usize,
    pub file: String,
    /// "truncate" (keep `pos` per mille of the bytes) | "flip" (bit `pos` mod 8*len) |
    /// "zero-tail" (zero the last 1000-`pos` per mille) | "set-number" | "set-string"
    pub kind: String,
    pub pos: u64,
    /// set-number / set-string: the leaf whose value equals `old` becomes `new`
    #[serde(default)]
    pub old: String,
    #[serde(default)]
    pub new: String,
    /// true: a disk fault (fault-injecting pass only); false: part of the scenario proper
    pub fault: bool,
}

#[derive(Serialize, Deserialize, Clone, Debug, PartialEq)]
pub struct Scenario {
    pub template: String,
    pub inputs: Inputs,
    pub steps: Vec<Step>,
    pub edits: Vec<DiskEdit>,
    /// unresolved syscall faults for the fault-injecting pass
    pub fault_specs: Vec<FaultSpec>,
}

pub const TZS: [&str; 12] = [
    "UTC", "America/New_York", "Asia/Tokyo", "Pacific/Kiritimati", "Etc/GMT+12", "Asia/Kolkata",
    "Europe/London", "Australia/Lord_Howe", "Asia/Riyadh", "America/St_Johns", "Pacific/Chatham", "Asia/Kathmandu",
];

fn fmt_f(v: f64) -> String {
    // shortest round-trip text, always with a decimal point or exponent handled by parse::<f64>
    let s = format!("{v}");
    s
}

fn gen_inputs(r: &mut SplitMix64, methods: &[String], tier: u32) -> Inputs {
    let method = if r.chance(12) { None } else { Some(r.pick(methods).clone()) };
    let lat_v = match r.range(0, 99) {
        0..=4 => *r.pick(&[90.0, -90.0, 0.0, -0.0, 66.56, -66.56, 89.9999, -89.9999]),
        5..=69 => r.f64_in(-55.0, 55.0, 4),
        70..=89 => r.f64_in(-70.0, 70.0, 4),
        _ => r.f64_in(-90.0, 90.0, 4),
    };
    let lon_v = if r.chance(6) { *r.pick(&[180.0, -180.0, 0.0, -0.0, 179.9999, -179.9999]) } else { r.f64_in(-180.0, 180.0, 4) };
    let gmt_v = match r.range(0, 99) {
        0..=5 => *r.pick(&[12.0, -12.0, 0.0, -0.0]),
        6..=75 => (lon_v / 15.0).round().clamp(-12.0, 12.0),
        _ => r.range(-48, 48) as f64 / 4.0,
    };
    let elev = if r.chance(35) {
        None
    } else if r.chance(10) {
        Some(fmt_f(*r.pick(&[8848.0, -420.0, 0.0])))
    } else {
        Some(fmt_f(r.f64_in(-420.0, 8848.0, 1)))
    };
    // make the four numbers pairwise distinct so that a leaf of the saved file can be found by value
    let mut lat_v = lat_v;
    let mut guard = 0;
    while guard < 10 {
        let e = elev.as_ref().map(|s| s.parse::<f64>().unwrap()).unwrap_or(0.0);
        if lat_v == lon_v || lat_v == gmt_v || lat_v == e || lat_v == 0.0 && guard > 0 {
            lat_v = r.f64_in(-55.0, 55.0, 4);
            guard += 1;
        } else {
            break;
        }
    }
    let dates_omitted = r.chance(10);
    let (start, end) = if dates_omitted {
        (None, None)
    } else {
        let year = if r.chance(4) { *r.pick(&[1600i32, 2399, 2000, 1900]) } else { r.range(1600, 2399) as i32 };
        let s = if r.chance(35) {
            let (m, d) = *r.pick(&[(12u32, 31u32), (12, 25), (2, 27), (2, 28), (2, 29), (1, 1), (3, 1), (6, 20), (12, 20)]);
            let y = if r.chance(50) || (m, d) == (2, 29) { year - year % 4 } else { year };
            let y = if y < 1600 { 1600 } else { y };
            // 29 Feb exists only in leap years (1700, 1800, ... are not)
            NaiveDate::from_ymd_opt(y, m, d).unwrap_or_else(|| NaiveDate::from_ymd_opt(y, m, 28).unwrap())
        } else {
            NaiveDate::from_ymd_opt(year, 1, 1).unwrap() + Duration::days(r.range(0, 364))
        };
        let mut days = match r.range(0, 99) {
            0..=39 => 1,
            40..=74 => r.range(2, 10),
            75..=94 => r.range(11, 60),
            // the top of the quantified range (365..400 days: where few simulated cores put the tool's
            // own parallel threshold within reach of changed code) is sampled in the quick tier too
            _ => if r.chance(35) { r.range(360, 400) } else if tier == 0 { r.range(61, 200) } else { r.range(61, 400) },
        };
        if lat_v.abs() > 60.0 && days > 40 {
            days = 1 + days % 40;
        }
        // start only (end defaults to start) in a few scenarios
        if days == 1 && r.chance(30) {
            (Some(s.to_string()), None)
        } else {
            (Some(s.to_string()), Some((s + Duration::days(days - 1)).to_string()))
        }
    };
    // other spellings of the same number (all accepted by Rust's f64 parser): "+5.5", "5.50", "05.5",
    // "5.5e0", "5." / ".5" for integral / sub-unit values, "-0.0"
    let respell = |r: &mut SplitMix64, v: f64| -> String {
        let base = fmt_f(v);
        if !r.chance(12) || !v.is_finite() {
            return base;
        }
        match r.range(0, 5) {
            0 if v >= 0.0 && !base.starts_with('-') => format!("+{base}"),
            1 if base.contains('.') => format!("{base}0"),
            2 if v >= 0.0 && !base.starts_with('-') => format!("0{base}"),
            3 => format!("{base}e0"),
            4 if v.fract() == 0.0 && !base.contains('.') => format!("{base}."),
            5 if v != 0.0 && v.abs() < 1.0 && base.starts_with("0.") => base[1..].to_string(),
            _ => base,
        }
    };
    // a few values with all 15-17 significant digits (the text <-> f64 round trip through the saved file)
    let (lat_v, lon_v) = if r.chance(6) { (r.f64_in(-55.0, 55.0, 15), r.f64_in(-180.0, 180.0, 14)) } else { (lat_v, lon_v) };
    let mut lat_s = respell(r, lat_v);
    let mut lon_s = respell(r, lon_v);
    let mut gmt_s = respell(r, gmt_v);
    // rare exotic-but-valid numerals: values that only round to a bound, exponents, tiny magnitudes
    if r.chance(3) {
        match r.range(0, 7) {
            0 => lon_s = "179.99999999999999".into(),      // nearest f64 is 180
            1 => lat_s = "89.999999999999999".into(),      // nearest f64 is 90
            2 => lat_s = "9e1".into(),
            3 => gmt_s = "1.2e1".into(),
            4 => gmt_s = "-11.9999999999999999".into(),    // nearest f64 is -12
            5 => lat_s = "1e-300".into(),
            6 => lon_s = "-1e-320".into(),                  // subnormal
            _ => gmt_s = "0.25e1".into(),
        }
    }
    Inputs { method, lat: lat_s, lon: lon_s, elev, gmt: gmt_s, start, end }
}

fn gen_env(r: &mut SplitMix64, base_clock: i64) -> Env {
    Env {
        hash_seed: r.next_u64() >> 1,
        clock: base_clock,
        tz: r.pick(&TZS).to_string(),
        cores: *r.pick(&[1u32, 2, 4, 8, 16, 64]),
    }
}

/// clock jump between two steps
fn jump(r: &mut SplitMix64, t: i64) -> i64 {
    // never before 1970-01-12: a system clock before the Unix epoch is not a situation the tool can
    // meet (chrono's `Utc::now()` panics on it), so a backward jump is floored
    jump_raw(r, t).max(MIN_CLOCK)
}

/// earliest simulated wall-clock value (seconds since the epoch)
pub const MIN_CLOCK: i64 = 1_000_000;

fn jump_raw(r: &mut SplitMix64, t: i64) -> i64 {
    match r.range(0, 9) {
        0..=2 => t + r.range(1, 50),
        3..=4 => {
            // to just after the next UTC midnight
            let day = 86_400;
            (t / day + 1) * day + r.range(0, 3)
        }
        5 => t + 86_400 * r.range(1, 400),
        6 => {
            // across a year end: jump to Dec 31 23:59:5x of that year (UTC) then one more step will cross
            t + 366 * 86_400
        }
        7..=8 => t - r.range(1, 86_400 * 3),
        _ => t,
    }
}

pub const BAD_LAT: [&str; 12] = ["90.0001", "-90.0001", "91", "-91", "1e3", "NaN", "inf", "-inf", "", "abc", "39,5", "39.0.0"];
pub const BAD_LON: [&str; 10] = ["180.0001", "-180.0001", "181", "-181", "NaN", "inf", "", "abc", "1e9", "77W"];
pub const BAD_GMT: [&str; 9] = ["12.0001", "-12.0001", "12.5", "13", "-13", "NaN", "abc", "", "inf"];
pub const BAD_ELEV: [&str; 7] = ["8848.1", "-420.1", "1e5", "NaN", "abc", "", "-inf"];
pub const BAD_DATE: [&str; 8] = ["2023-02-30", "2023-13-01", "2023-00-10", "2023-02-29", "abc", "", "2023-04-31", "99999999-01-01"];
/// finite out-of-range numbers that can be written into a JSON parameter file
pub const BAD_LAT_NUM: [&str; 4] = ["90.0001", "-90.0001", "91", "-1000"];
pub const BAD_LON_NUM: [&str; 4] = ["180.0001", "-180.0001", "181", "1e9"];
pub const BAD_GMT_NUM: [&str; 4] = ["12.0001", "-12.0001", "12.5", "-13"];
pub const BAD_ELEV_NUM: [&str; 3] = ["8848.1", "-420.1", "1e5"];

fn pick_sink(r: &mut SplitMix64, name: &str) -> Option<String> {
    if r.chance(55) { Some(name.to_string()) } else { None }
}

pub fn generate(seed: u64, i: u64, tier: u32, methods: &[String]) -> Scenario {
    let mut r = SplitMix64::for_run(seed ^ 0xC19, i);
    let mut inputs = gen_inputs(&mut r, methods, tier);
    // 1970..2100 (the shim's clock); the tool only uses it for defaulted dates
    let mut clock = r.range(MIN_CLOCK, 4_102_444_800);
    if r.chance(10) {
        // a few seconds before a UTC midnight / year end
        let y = r.range(1971, 2099) as i32;
        clock = NaiveDate::from_ymd_opt(y, 1, 1).unwrap().and_hms_opt(0, 0, 0).unwrap().and_utc().timestamp() - r.range(1, 5);
    }
    let t = r.range(0, 99);
    let mut steps = Vec::new();
    let mut edits = Vec::new();
    let template;
    let mk = |kind: &str, env: Env| Step { kind: kind.into(), bad: None, save_params: None, input: None, output: None, env, faults: vec![], inputs: None };
    if t < 38 {
        template = "A-save;B-load";
        let sink_file = r.chance(55);
        let mut a = mk("A", gen_env(&mut r, clock));
        a.save_params = Some("p.json".into());
        a.output = if sink_file { Some("o1.json".into()) } else { None };
        steps.push(a);
        clock = jump(&mut r, clock);
        let mut b = mk("B", gen_env(&mut r, clock));
        b.input = Some("p.json".into());
        b.output = if sink_file { Some("o2.json".into()) } else { None };
        if r.chance(15) {
            // -i together with -p: to another path, or to the very file being read
            b.save_params = Some(if r.chance(60) { "p2.json".into() } else { "p.json".into() });
        }
        steps.push(b);
    } else if t < 48 {
        template = "A;A-again";
        if inputs.start.is_none() {
            // byte-identical repetition is only promised for explicit dates
            inputs.start = Some("2024-02-28".into());
            inputs.end = Some("2024-03-01".into());
        }
        let sink_file = r.chance(55);
        let mut a = mk("A", gen_env(&mut r, clock));
        a.output = if sink_file { Some("o1.json".into()) } else { None };
        if inputs.method.is_none() || inputs.elev.is_none() {
            a.save_params = Some("p.json".into());
        }
        steps.push(a.clone());
        clock = jump(&mut r, clock);
        let mut a2 = a;
        a2.env = gen_env(&mut r, clock);
        a2.output = if sink_file { Some("o2.json".into()) } else { None };
        a2.save_params = a2.save_params.map(|_| "p2.json".to_string());
        steps.push(a2);
    } else if t < 58 {
        template = "A-save;B;A-again;B-again";
        let sink_file = r.chance(55);
        let mut a = mk("A", gen_env(&mut r, clock));
        a.save_params = Some("p.json".into());
        a.output = if sink_file { Some("o1.json".into()) } else { None };
        steps.push(a.clone());
        clock = jump(&mut r, clock);
        let mut b = mk("B", gen_env(&mut r, clock));
        b.input = Some("p.json".into());
        b.output = if sink_file { Some("o2.json".into()) } else { None };
        steps.push(b.clone());
        if inputs.start.is_some() {
            clock = jump(&mut r, clock);
            let mut a2 = a;
            a2.env = gen_env(&mut r, clock);
            a2.save_params = Some("p3.json".into());
            a2.output = if sink_file { Some("o3.json".into()) } else { None };
            steps.push(a2);
        }
        clock = jump(&mut r, clock);
        let mut b2 = b;
        b2.env = gen_env(&mut r, clock);
        b2.output = if sink_file { Some("o4.json".into()) } else { None };
        steps.push(b2);
    } else if t < 74 {
        template = "R-bad-flag";
        let mut s = mk("R", gen_env(&mut r, clock));
        let which = r.range(0, 5);
        let (flag, val) = match which {
            0 => ("latitude", r.pick(&BAD_LAT).to_string()),
            1 => ("longitude", r.pick(&BAD_LON).to_string()),
            2 => ("gmt", r.pick(&BAD_GMT).to_string()),
            3 => ("elevation", r.pick(&BAD_ELEV).to_string()),
            4 => ("start-date", r.pick(&BAD_DATE).to_string()),
            _ => ("end-date", r.pick(&BAD_DATE).to_string()),
        };
        if flag == "end-date" && inputs.start.is_none() {
            inputs.start = Some("2023-02-01".into());
        }
        s.bad = Some((flag.to_string(), val));
        s.save_params = if r.chance(60) { Some("p.json".into()) } else { None };
        s.output = pick_sink(&mut r, "o1.json");
        steps.push(s);
    } else if t < 86 {
        template = "A-save;edit-out-of-range;B-rejects";
        let mut a = mk("A", gen_env(&mut r, clock));
        a.save_params = Some("p.json".into());
        a.output = pick_sink(&mut r, "o1.json");
        steps.push(a);
        let which = r.range(0, 4);
        let (old, new, kind) = match which {
            0 => (inputs.lat.clone(), r.pick(&BAD_LAT_NUM).to_string(), "set-number"),
            1 => (inputs.lon.clone(), r.pick(&BAD_LON_NUM).to_string(), "set-number"),
            2 => (inputs.gmt.clone(), r.pick(&BAD_GMT_NUM).to_string(), "set-number"),
            3 if inputs.elev.is_some() => (inputs.elev.clone().unwrap(), r.pick(&BAD_ELEV_NUM).to_string(), "set-number"),
            _ if inputs.start.is_some() => (inputs.start.clone().unwrap(), r.pick(&BAD_DATE[..4]).to_string(), "set-string"),
            _ => (inputs.lat.clone(), r.pick(&BAD_LAT_NUM).to_string(), "set-number"),
        };
        edits.push(DiskEdit { before_step: 1, file: "p.json".into(), kind: kind.into(), pos: 0, old, new, fault: false });
        clock = jump(&mut r, clock);
        let mut b = mk("B", gen_env(&mut r, clock));
        b.input = Some("p.json".into());
        b.output = pick_sink(&mut r, "o2.json");
        steps.push(b);
    } else if t < 90 {
        template = "A-save;hand-edit;B-load";
        // the saved file is edited by hand in a way that either keeps its meaning (JSON whitespace,
        // pretty-printing, key order, an unknown extra field) or makes it malformed (trailing bytes)
        let sink_file = r.chance(55);
        let mut a = mk("A", gen_env(&mut r, clock));
        a.save_params = Some("p.json".into());
        a.output = if sink_file { Some("o1.json".into()) } else { None };
        steps.push(a);
        let (kind, pos) = match r.range(0, 9) {
            0..=2 => ("pad-leading-ws", *r.pick(&[1u64, 100, 3_000, 5_000, 9_000, 20_000, 70_000, 140_000])),
            3..=4 => ("pad-trailing-ws", *r.pick(&[1u64, 100, 5_000, 70_000])),
            5..=6 => ("reformat-pretty", 0),
            _ => ("unknown-field", 0),
        };
        edits.push(DiskEdit { before_step: 1, file: "p.json".into(), kind: kind.into(), pos, old: String::new(), new: String::new(), fault: false });
        clock = jump(&mut r, clock);
        let mut b = mk("B", gen_env(&mut r, clock));
        b.input = Some("p.json".into());
        b.output = if sink_file { Some("o2.json".into()) } else { None };
        steps.push(b);
    } else if t < 93 {
        template = "A;A-nearby";
        // a second run that differs from the first in one respect only (a nearby latitude, another
        // method or elevation, a sub-range of the dates): whatever an earlier run may have left behind
        // (under $HOME, $TMPDIR, next to its files) must not leak into the later one
        if inputs.start.is_none() {
            inputs.start = Some("2024-02-20".into());
            inputs.end = Some("2024-03-10".into());
        }
        let sink_file = r.chance(70);
        let mut a = mk("A", gen_env(&mut r, clock));
        a.output = if sink_file { Some("o1.json".into()) } else { None };
        a.save_params = if r.chance(40) || inputs.method.is_none() || inputs.elev.is_none() { Some("p.json".into()) } else { None };
        steps.push(a.clone());
        clock = jump(&mut r, clock);
        let mut near = inputs.clone();
        match r.range(0, 5) {
            0 | 1 => {
                let v: f64 = inputs.lat.parse().unwrap_or(0.0);
                let d = *r.pick(&[0.3, -0.3, 0.04, -0.04, 0.45]);
                near.lat = format!("{}", ((v + d).clamp(-89.0, 89.0) * 10000.0).round() / 10000.0);
            }
            2 => near.method = Some(r.pick(methods).clone()),
            3 => near.elev = Some(format!("{}", r.range(1, 8000))),
            4 => {
                let v: f64 = inputs.lon.parse().unwrap_or(0.0);
                near.lon = format!("{}", ((v + 0.3).clamp(-179.0, 179.0) * 10000.0).round() / 10000.0);
            }
            _ => {
                // a sub-range of the first run's dates
                if let (Some(s0), Some(e0)) = (&inputs.start, &inputs.end) {
                    if let (Ok(s0), Ok(e0)) = (s0.parse::<NaiveDate>(), e0.parse::<NaiveDate>()) {
                        let n = (e0 - s0).num_days();
                        if n >= 2 {
                            near.start = Some((s0 + Duration::days(1)).to_string());
                            near.end = Some((e0 - Duration::days(1)).to_string());
                        }
                    }
                }
            }
        }
        let mut a2 = a;
        a2.env = gen_env(&mut r, clock);
        a2.inputs = Some(near);
        a2.output = if sink_file { Some("o2.json".into()) } else { None };
        a2.save_params = a2.save_params.map(|_| "p2.json".to_string());
        steps.push(a2);
    } else if t < 95 {
        template = "A-save;A-other-overwrites;B-load";
        // two different configurations written to the same files: what is on disk afterwards must
        // be the second one only
        let sink_file = r.chance(60);
        let mut a = mk("A", gen_env(&mut r, clock));
        a.save_params = Some("p.json".into());
        a.output = if sink_file { Some("o1.json".into()) } else { None };
        steps.push(a.clone());
        clock = jump(&mut r, clock);
        let mut a2 = a;
        a2.env = gen_env(&mut r, clock);
        let mut other = gen_inputs(&mut r, methods, tier);
        if r.chance(50) {
            // textually short values, one day
            other.lat = format!("{}", r.range(-60, 60));
            other.lon = format!("{}", r.range(-179, 179));
            other.gmt = format!("{}", r.range(-12, 12));
            other.elev = None;
            other.end = None;
            if other.start.is_none() {
                other.start = Some("2001-01-01".into());
            }
        }
        a2.inputs = Some(other);
        steps.push(a2);
        clock = jump(&mut r, clock);
        let mut b = mk("B", gen_env(&mut r, clock));
        b.input = Some("p.json".into());
        b.output = if sink_file { Some("o2.json".into()) } else { None };
        steps.push(b);
    } else {
        template = "A-single";
        let mut a = mk("A", gen_env(&mut r, clock));
        a.save_params = if r.chance(50) || inputs.method.is_none() || inputs.elev.is_none() || inputs.start.is_none() { Some("p.json".into()) } else { None };
        a.output = pick_sink(&mut r, "o1.json");
        steps.push(a);
    }
    // flags omitted => the expectation comes from the parameter file the same run saves
    for (k, s) in steps.iter_mut().enumerate() {
        let eff = s.inputs.as_ref().unwrap_or(&inputs);
        if (eff.method.is_none() || eff.elev.is_none() || eff.start.is_none()) && s.kind == "A" && s.save_params.is_none() {
            s.save_params = Some(format!("pdef{k}.json"));
        }
    }

    // ---- faults for the fault-injecting pass
    let mut fault_specs = Vec::new();
    let nfaults = match r.range(0, 9) { 0..=1 => 0, 2..=6 => 1, 7..=8 => 2, _ => 3 };
    for _ in 0..nfaults {
        let step = r.range(0, steps.len() as i64 - 1) as usize;
        let s = &steps[step];
        let mut targets: Vec<&str> = Vec::new();
        if s.kind != "R" {
            if s.kind == "A" && s.save_params.is_some() { targets.push("params"); }
            if s.input.is_some() { targets.push("input"); }
            targets.push(if s.output.is_some() { "output" } else { "stdout" });
        } else {
            continue;
        }
        // a few faults aim at rename/unlink/ftruncate/fsync calls: the shipped tool makes none (the
        // fault is then dropped at resolution), changed code with an "atomic save" does
        if r.chance(8) {
            let kind = *r.pick(&["crash", "crash", "EIO", "ENOSPC", "EACCES"]);
            let at = match r.range(0, 3) { 0 => 0, 1 => 1000, _ => r.range(0, 1000) as u32 };
            fault_specs.push(FaultSpec { step, target: "meta".into(), op: "meta".into(), at, abs: None, kind: kind.into(), arg: 0 });
            continue;
        }
        let target = r.pick(&targets).to_string();
        let (op, kind, arg): (&str, &str, i64) = if target == "input" {
            match r.range(0, 9) {
                0..=2 => ("read", "EIO", 0),
                3..=4 => ("read", "EINTR", 0),
                5..=6 => ("read", "short", r.range(1, 200)),
                7 => ("read", "crash", 0),
                8 => ("open", *r.pick(&["EACCES", "ENOENT", "EMFILE", "EIO"]), 0),
                _ => ("open", "EINTR", 0),
            }
        } else if target == "stdout" {
            match r.range(0, 9) {
                0..=2 => ("write", *r.pick(&["ENOSPC", "EIO", "EPIPE"]), if r.chance(60) { 1 } else { 0 }),
                3..=4 => ("write", "EINTR", 0),
                5..=6 => ("write", "short", r.range(1, 20)),
                7..=8 => ("write", "crash", 0),
                _ => ("write", "tear", r.range(1, 10)),
            }
        } else {
            match r.range(0, 19) {
                0..=4 => ("write", *r.pick(&["ENOSPC", "EIO", "EDQUOT"]), if r.chance(60) { 1 } else { 0 }),
                5..=7 => ("write", "EINTR", 0),
                8..=10 => ("write", "short", r.range(1, 20)),
                11..=14 => ("write", "crash", 0),
                15..=16 => ("write", "tear", r.range(1, 10)),
                17 => ("open", *r.pick(&["EACCES", "ENOSPC", "EMFILE", "EROFS", "EISDIR"]), 0),
                18 => ("open", "crash", 0),
                _ => ("open", "EINTR", 0),
            }
        };
        let at = match r.range(0, 9) { 0 => 0, 1 => 1000, _ => r.range(0, 1000) as u32 };
        fault_specs.push(FaultSpec { step, target, op: op.into(), at, abs: None, kind: kind.into(), arg });
    }
    // disk faults on the parameter file between the step that wrote it and the step that reads it
    if let Some(bpos) = steps.iter().position(|s| s.kind == "B") {
        if !edits.iter().any(|e| !e.fault) && r.chance(30) {
            let kind = *r.pick(&["truncate", "flip", "flip", "zero-tail"]);
            let pos = if kind == "flip" { r.next_u64() % 1_000_000 } else { r.range(0, 999) as u64 };
            edits.push(DiskEdit { before_step: bpos, file: "p.json".into(), kind: kind.into(), pos, old: String::new(), new: String::new(), fault: true });
        }
    }
    Scenario { template: template.into(), inputs, steps, edits, fault_specs }
}
