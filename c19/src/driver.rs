//! Batch driver for C19: shards scenarios over worker processes by run index, restarts a shard
//! past a scenario on which the in-process library reference does not terminate, aggregates
//! probes into the evidence file, minimises the first violation into a replay file.

use crate::exec::{PassResult, Violation};
use crate::model::Scenario;
use crate::{arg_u64, arg_val, die, sweep, tier_num, CaseFile, RunLine};
use serde_json::{json, Value};
use std::collections::{BTreeMap, HashMap, HashSet};
use std::path::{Path, PathBuf};
use std::process::{Child, Command, Stdio};
use std::time::{Duration, Instant};

const DEFAULT_SEED: u64 = 20261002;
const STALL_SECS: u64 = 150;

struct Tools {
    bin: String,
    shim: String,
}

fn tools(args: &[String]) -> Tools {
    let t = Tools { bin: arg_val(args, "--bin").unwrap_or_else(|| die("--bin CLI")), shim: arg_val(args, "--shim").unwrap_or_else(|| die("--shim SO")) };
    if !Path::new(&t.bin).exists() {
        die(&format!("CLI binary {} not found", t.bin));
    }
    if !Path::new(&t.shim).exists() {
        die(&format!("shim {} not found", t.shim));
    }
    t
}

fn scratch_dir(tag: &str) -> PathBuf {
    let base = std::env::var("TMPDIR").unwrap_or_else(|_| "/tmp".into());
    let d = PathBuf::from(base).join(format!("ipt-c19-{tag}-{}", std::process::id()));
    let _ = std::fs::remove_dir_all(&d);
    std::fs::create_dir_all(&d).unwrap_or_else(|e| die(&format!("cannot create scratch dir: {e}")));
    d
}

fn spawn_self(args: &[String], stderr_to: &Path) -> Child {
    let exe = std::env::current_exe().unwrap();
    let err = std::fs::File::create(stderr_to).unwrap();
    Command::new(exe)
        .args(args)
        .stdin(Stdio::null())
        .stdout(Stdio::null())
        .stderr(err)
        .spawn()
        .unwrap_or_else(|e| die(&format!("cannot spawn worker: {e}")))
}

fn probe(dir: &Path, t: &Tools, case: &CaseFile) -> Option<PassResult> {
    let case_path = dir.join("probe-case.json");
    let out_path = dir.join("probe-out.json");
    let _ = std::fs::remove_file(&out_path);
    std::fs::write(&case_path, serde_json::to_vec(case).unwrap()).unwrap();
    let args: Vec<String> = vec![
        "probe".into(), "--case".into(), case_path.to_string_lossy().into(), "--out".into(), out_path.to_string_lossy().into(),
        "--bin".into(), t.bin.clone(), "--shim".into(), t.shim.clone(), "--dir".into(), dir.join("probe-scratch").to_string_lossy().into(),
    ];
    let mut child = spawn_self(&args, &dir.join("probe.stderr"));
    let t0 = Instant::now();
    loop {
        match child.try_wait().unwrap() {
            Some(_) => break,
            None => {
                if t0.elapsed() > Duration::from_secs(STALL_SECS * 3) {
                    let _ = child.kill();
                    let _ = child.wait();
                    return None;
                }
                std::thread::sleep(Duration::from_millis(2));
            }
        }
    }
    std::fs::read(&out_path).ok().and_then(|b| serde_json::from_slice(&b).ok())
}

struct Shard {
    name: String,
    child: Child,
    last: Option<(String, Instant)>,
    /// indices this shard still has to cover are i ≡ offset (mod stride), i < end
    offset: u64,
    done: bool,
}

struct Batch {
    lines: Vec<RunLine>,
    fails: Vec<RunLine>,
    hung: Vec<u64>,
}

#[allow(clippy::too_many_arguments)]
fn run_batch(dir: &Path, t: &Tools, seed: u64, tier: u32, first: u64, end: u64, total_random: u64, jobs: u64, sweep_stride: u64) -> Batch {
    let _ = std::fs::remove_dir_all(dir);
    std::fs::create_dir_all(dir).unwrap();
    let launch = |name: &str, start: u64| -> Child {
        // a shard covers start, start+jobs, ... < end
        let args: Vec<String> = [
            "worker", "--seed", &seed.to_string(), "--tier", &tier.to_string(), "--total", &(end.saturating_sub(start)).to_string(), "--random",
            &total_random.to_string(), "--stride", &jobs.to_string(), "--offset", "0", "--first", &start.to_string(), "--out", &dir.to_string_lossy(),
            "--name", name, "--bin", &t.bin, "--shim", &t.shim, "--sweep-stride", &sweep_stride.to_string(),
        ]
        .iter()
        .map(|s| s.to_string())
        .collect();
        spawn_self(&args, &dir.join(format!("w{name}.stderr")))
    };
    let mut shards: Vec<Shard> = (0..jobs)
        .filter(|j| first + j < end)
        .map(|j| Shard { name: j.to_string(), child: launch(&j.to_string(), first + j), last: None, offset: j, done: false })
        .collect();
    let mut hung = Vec::new();
    let mut live = shards.len();
    while live > 0 {
        std::thread::sleep(Duration::from_millis(50));
        for sh in shards.iter_mut() {
            if sh.done {
                continue;
            }
            let prog = std::fs::read_to_string(dir.join(format!("w{}.progress", sh.name))).unwrap_or_default().trim().to_string();
            match sh.child.try_wait().unwrap() {
                Some(st) => {
                    let code = st.code();
                    if code != Some(0) && code != Some(3) {
                        die(&format!("worker {} died ({st}) at run {prog}; see {}", sh.name, dir.join(format!("w{}.stderr", sh.name)).display()));
                    }
                    sh.done = true;
                    live -= 1;
                }
                None => {
                    let stalled = match &sh.last {
                        Some((p, t0)) if *p == prog => t0.elapsed() > Duration::from_secs(STALL_SECS),
                        _ => {
                            sh.last = Some((prog.clone(), Instant::now()));
                            false
                        }
                    };
                    if stalled {
                        let _ = sh.child.kill();
                        let _ = sh.child.wait();
                        match prog.parse::<u64>() {
                            Ok(i) => {
                                // the in-process library reference (or the CLI and then the reference) does not
                                // terminate on this scenario: not C19's concern; skip it and continue the shard
                                hung.push(i);
                                let next = i + jobs;
                                if next < end {
                                    sh.child = launch(&sh.name, next);
                                    sh.last = None;
                                } else {
                                    sh.done = true;
                                    live -= 1;
                                }
                                let _ = sh.offset;
                            }
                            Err(_) => die(&format!("worker {} stalled outside a run", sh.name)),
                        }
                    }
                }
            }
        }
    }
    let mut lines = Vec::new();
    let mut fails = Vec::new();
    for sh in &shards {
        if let Ok(text) = std::fs::read_to_string(dir.join(format!("w{}.jsonl", sh.name))) {
            for l in text.lines() {
                if let Ok(rl) = serde_json::from_str::<RunLine>(l) {
                    lines.push(rl);
                }
            }
        }
    }
    if let Ok(rd) = std::fs::read_dir(dir) {
        for e in rd.flatten() {
            let n = e.file_name().to_string_lossy().into_owned();
            if n.starts_with("fail-") {
                if let Ok(rl) = serde_json::from_slice::<RunLine>(&std::fs::read(e.path()).unwrap_or_default()) {
                    fails.push(rl);
                }
            }
        }
    }
    lines.sort_by_key(|l| l.i);
    fails.sort_by_key(|l| l.i);
    Batch { lines, fails, hung }
}

// ---------------------------------------------------------------------------------------------

fn first_violation(p: &PassResult) -> Option<&Violation> {
    p.violations.iter().min_by_key(|v| v.step)
}

fn case_from(rl: &RunLine, seed: u64, tier: u32) -> CaseFile {
    let (pass, pr) = if !rl.strict.violations.is_empty() { ("strict", &rl.strict) } else { ("inject", rl.inject.as_ref().unwrap()) };
    let v = first_violation(pr).unwrap();
    CaseFile {
        property: "C19".into(),
        class: v.class.clone(),
        seed,
        run: rl.i,
        tier,
        pass: pass.into(),
        scenario: rl.scenario.clone(),
        step: v.step,
        message: v.message.clone(),
        minimised: false,
        original_scenario: None,
        events: pr.steps.get(v.step).map(|s| s.events.clone()).unwrap_or_default(),
    }
}

fn still_fails(dir: &Path, t: &Tools, case: &CaseFile, sc: &Scenario) -> Option<(Violation, Vec<String>)> {
    let mut c = case.clone();
    c.scenario = sc.clone();
    let r = probe(dir, t, &c)?;
    let v = r.violations.iter().filter(|v| v.class == case.class).min_by_key(|v| v.step)?.clone();
    let ev = r.steps.get(v.step).map(|s| s.events.clone()).unwrap_or_default();
    Some((v, ev))
}

fn candidates(sc: &Scenario, vstep: usize) -> Vec<(String, Scenario)> {
    let mut out = Vec::new();
    // drop everything after the violating step
    if sc.steps.len() > vstep + 1 {
        let mut c = sc.clone();
        c.steps.truncate(vstep + 1);
        c.edits.retain(|e| e.before_step <= vstep);
        out.push(("drop later steps".to_string(), c));
    }
    // drop an earlier step
    for s in 0..vstep.min(sc.steps.len()) {
        let mut c = sc.clone();
        c.steps.remove(s);
        c.edits.retain(|e| e.before_step != s || s + 1 < sc.steps.len());
        for e in c.edits.iter_mut() {
            if e.before_step > s {
                e.before_step -= 1;
            }
        }
        out.push((format!("drop step {s}"), c));
    }
    // drop a fault / an edit
    for (si, s) in sc.steps.iter().enumerate() {
        for fi in 0..s.faults.len() {
            let mut c = sc.clone();
            c.steps[si].faults.remove(fi);
            out.push((format!("drop fault {fi} of step {si}"), c));
        }
    }
    for ei in 0..sc.edits.len() {
        let mut c = sc.clone();
        c.edits.remove(ei);
        out.push((format!("drop disk edit {ei}"), c));
    }
    // one day
    if sc.inputs.end.is_some() {
        let mut c = sc.clone();
        c.inputs.end = None;
        out.push(("range -> 1 day".into(), c));
    }
    if sc.inputs.start.as_deref().map(|s| s != "2000-01-01").unwrap_or(false) {
        let mut c = sc.clone();
        if let (Some(s), Some(e)) = (&sc.inputs.start, &sc.inputs.end) {
            if let (Ok(s), Ok(e)) = (s.parse::<chrono::NaiveDate>(), e.parse::<chrono::NaiveDate>()) {
                let n = (e - s).num_days();
                c.inputs.end = Some((chrono::NaiveDate::from_ymd_opt(2000, 1, 1).unwrap() + chrono::Duration::days(n)).to_string());
            }
        }
        c.inputs.start = Some("2000-01-01".into());
        out.push(("start -> 2000-01-01".into(), c));
    }
    // simple inputs
    {
        let mut c = sc.clone();
        if c.inputs.method.is_some() {
            c.inputs.method = Some("isna".into());
        }
        c.inputs.lat = "10.5".into();
        c.inputs.lon = "20.25".into();
        c.inputs.gmt = "1".into();
        if c.inputs.elev.is_some() {
            c.inputs.elev = Some("100".into());
        }
        if c.inputs != sc.inputs && !sc.edits.iter().any(|e| e.kind.starts_with("set-")) {
            out.push(("simple location and method".into(), c));
        }
    }
    // simple environment
    {
        let mut c = sc.clone();
        for (k, s) in c.steps.iter_mut().enumerate() {
            s.env.tz = "UTC".into();
            s.env.cores = 1;
            s.env.hash_seed = 1 + k as u64;
            s.env.clock = 1_000_000_000;
        }
        if c != *sc {
            out.push(("simple environment".into(), c));
        }
    }
    // earlier fault positions
    for (si, s) in sc.steps.iter().enumerate() {
        for (fi, f) in s.faults.iter().enumerate() {
            for n in [0, f.n / 2, f.n - 1] {
                if n >= 0 && n < f.n {
                    let mut c = sc.clone();
                    c.steps[si].faults[fi].n = n;
                    out.push((format!("fault {fi} of step {si}: op index {} -> {n}", f.n), c));
                }
            }
        }
    }
    out
}

fn minimise(dir: &Path, t: &Tools, raw: &CaseFile) -> (CaseFile, Vec<String>) {
    let mut case = raw.clone();
    case.original_scenario = Some(raw.scenario.clone());
    let mut log = Vec::new();
    let mut probes = 0;
    'outer: loop {
        for (desc, cand) in candidates(&case.scenario, case.step) {
            if probes >= 160 {
                break 'outer;
            }
            probes += 1;
            if let Some((v, ev)) = still_fails(dir, t, &case, &cand) {
                log.push(desc);
                case.scenario = cand;
                case.step = v.step;
                case.message = v.message;
                case.events = ev;
                continue 'outer;
            }
        }
        break;
    }
    // must reproduce in a fresh process, else keep the raw case
    match still_fails(dir, t, &case, &case.scenario.clone()) {
        Some((v, ev)) => {
            case.step = v.step;
            case.message = v.message;
            case.events = ev;
        }
        None => {
            log.push("minimised case did not reproduce; keeping the raw case".into());
            case = raw.clone();
        }
    }
    case.minimised = true;
    log.push(format!("{probes} probes"));
    (case, log)
}

#[derive(serde::Deserialize, Debug, Default)]
struct KnownFile {
    #[serde(default)]
    findings: Vec<KnownFinding>,
}
#[derive(serde::Deserialize, Debug)]
struct KnownFinding {
    property: String,
    class: String,
    #[serde(default)]
    message_contains: Option<String>,
    /// "op:kind" that must be among the faults of the violating step
    #[serde(default)]
    fault: Option<String>,
    what: String,
}

fn matches_known(k: &KnownFinding, case: &CaseFile) -> bool {
    if k.property != "C19" || k.class != case.class {
        return false;
    }
    if let Some(m) = &k.message_contains {
        if !case.message.contains(m) {
            return false;
        }
    }
    if let Some(f) = &k.fault {
        let fs: Vec<String> = case.scenario.steps.get(case.step).map(|s| s.faults.iter().map(|x| format!("{}:{}", x.op, x.kind)).collect()).unwrap_or_default();
        if !fs.contains(f) {
            return false;
        }
    }
    true
}

fn merge_json(a: &mut Value, b: &Value) {
    match (a, b) {
        (Value::Number(x), Value::Number(y)) => {
            *x = serde_json::Number::from(x.as_u64().unwrap_or(0) + y.as_u64().unwrap_or(0));
        }
        (Value::Object(x), Value::Object(y)) => {
            for (k, v) in y {
                match x.get_mut(k) {
                    Some(xv) => merge_json(xv, v),
                    None => {
                        x.insert(k.clone(), v.clone());
                    }
                }
            }
        }
        _ => {}
    }
}

pub fn run(args: &[String]) -> i32 {
    let t_start = Instant::now();
    let t = tools(args);
    let tier_s = arg_val(args, "--tier").unwrap_or_else(|| std::env::var("VERIF_TIER").unwrap_or_else(|_| "quick".into()));
    let tier = tier_num(&tier_s);
    let seed = arg_val(args, "--seed")
        .or_else(|| std::env::var("VERIF_SEED").ok().filter(|s| !s.is_empty()))
        .map(|s| s.parse::<u64>().unwrap_or_else(|_| die("seed must be an unsigned integer")))
        .unwrap_or(DEFAULT_SEED);
    let jobs = arg_u64(args, "--jobs", std::thread::available_parallelism().map(|n| n.get() as u64).unwrap_or(4)).max(1);
    let total_random = arg_u64(args, "--runs", if tier == 0 { 6_000 } else { 250_000 });
    // sweeps: quick = a sample of base 0 (every 16th position), thorough = 6 complete bases
    let sweep_bases = arg_u64(args, "--sweep-bases", if tier == 0 { 1 } else { 10 });
    let sweep_stride = arg_u64(args, "--sweep-stride", if tier == 0 { 19 } else { 1 }).max(1);
    let total = total_random + (sweep_bases * sweep::PER_BASE).div_ceil(sweep_stride);
    let evidence = arg_val(args, "--evidence").unwrap_or_else(|| die("--evidence FILE"));
    let replays = arg_val(args, "--replays").unwrap_or_else(|| die("--replays DIR"));
    let known: KnownFile = arg_val(args, "--known")
        .and_then(|p| std::fs::read(p).ok())
        .map(|b| serde_json::from_slice(&b).unwrap_or_else(|e| die(&format!("known findings file: {e}"))))
        .unwrap_or_default();
    println!("C19 tier={tier_s} VERIF_SEED={seed} scenarios={total_random} sweep_scenarios={} jobs={jobs}", total - total_random);

    let dir = scratch_dir("run");
    let mut all_lines: Vec<RunLine> = Vec::new();
    let mut violations: Vec<(CaseFile, PathBuf, Vec<String>)> = Vec::new();
    let mut known_hits: Vec<String> = Vec::new();
    let mut hung: Vec<u64> = Vec::new();
    let mut first = 0u64;
    let mut rounds = 0;
    while first < total {
        rounds += 1;
        let batch = run_batch(&dir.join("runA"), &t, seed, tier, first, total, total_random, jobs, sweep_stride);
        hung.extend(batch.hung.iter().copied());
        let cutoff = batch.fails.first().map(|c| c.i);
        for l in batch.lines {
            if cutoff.map(|c| l.i < c).unwrap_or(true) {
                all_lines.push(l);
            }
        }
        match batch.fails.into_iter().next() {
            None => break,
            Some(rl) => {
                let raw = case_from(&rl, seed, tier);
                if raw.class == "harness" {
                    let _ = std::fs::remove_dir_all(&dir);
                    die(&format!("scenario {}: {}", raw.run, raw.message));
                }
                if let Some(k) = known.findings.iter().find(|k| matches_known(k, &raw)) {
                    let line = format!("KNOWN-FINDING: property=C19 {}", k.what);
                    if !known_hits.contains(&line) {
                        known_hits.push(line);
                    }
                    first = raw.run + 1;
                    if rounds > 200 {
                        die("more than 200 restarts after known findings");
                    }
                    continue;
                }
                println!("violation at scenario {} class={} : minimising ...", raw.run, raw.class);
                let (case, log) = minimise(&dir, &t, &raw);
                if let Some(k) = known.findings.iter().find(|k| matches_known(k, &case)) {
                    let line = format!("KNOWN-FINDING: property=C19 {}", k.what);
                    if !known_hits.contains(&line) {
                        known_hits.push(line);
                    }
                    first = raw.run + 1;
                    if rounds > 50 {
                        die("more than 50 restarts after known findings");
                    }
                    continue;
                }
                std::fs::create_dir_all(&replays).ok();
                let path = PathBuf::from(&replays).join(format!("C19-{}-{}.json", seed, raw.run));
                std::fs::write(&path, serde_json::to_vec_pretty(&case).unwrap()).unwrap();
                violations.push((case, path, log));
                break;
            }
        }
    }

    // ---- determinism spot check
    let mut det = json!({"checked": 0, "mismatches": 0});
    if violations.is_empty() && !all_lines.is_empty() {
        let n = (total_random).min(if tier == 0 { 300 } else { 1500 });
        let again = run_batch(&dir.join("runB"), &t, seed, tier, 0, n, total_random, 3.min(jobs), sweep_stride);
        let by_i: HashMap<u64, &RunLine> = all_lines.iter().map(|l| (l.i, l)).collect();
        let (mut mism, mut checked) = (0, 0);
        for l in &again.lines {
            if let Some(o) = by_i.get(&l.i) {
                checked += 1;
                let same = o.strict.digest == l.strict.digest && o.inject.as_ref().map(|p| &p.digest) == l.inject.as_ref().map(|p| &p.digest);
                if !same {
                    mism += 1;
                    eprintln!("determinism: scenario {} digests differ", l.i);
                }
            }
        }
        det = json!({"checked": checked, "mismatches": mism, "how": "first scenarios of the batch repeated in fresh worker processes with 3 shards; per-pass digest = hash(argv, exit status, shim event log, stdout hash, hash of every file after every step, violations)"});
        if mism > 0 {
            let _ = std::fs::remove_dir_all(&dir);
            die("simulator is not deterministic (digest mismatch); refusing to report");
        }
    }

    // ---- aggregate
    let mut probes = json!({});
    let mut steps_run = 0u64;
    let mut digests: HashSet<String> = HashSet::new();
    let mut key_orders: HashSet<String> = HashSet::new();
    let mut templates: BTreeMap<String, u64> = BTreeMap::new();
    let mut methods: BTreeMap<String, u64> = BTreeMap::new();
    let mut fault_sites: HashSet<String> = HashSet::new();
    let mut skipped_steps = 0u64;
    let mut clock_span = (i64::MAX, i64::MIN);
    let mut samples = Vec::new();
    let mut sweep_stats: BTreeMap<String, (u64, u64)> = BTreeMap::new(); // kind -> (scenarios, with fault landed)
    for l in &all_lines {
        let tname = l.scenario.template.split(':').next().unwrap_or("").to_string();
        let tname = if tname.starts_with("sweep-base") { "sweep".to_string() } else { tname };
        *templates.entry(tname.clone()).or_default() += 1;
        *methods.entry(l.scenario.inputs.method.clone().unwrap_or_else(|| "(omitted)".into())).or_default() += 1;
        for s in &l.scenario.steps {
            clock_span.0 = clock_span.0.min(s.env.clock);
            clock_span.1 = clock_span.1.max(s.env.clock);
        }
        for (pname, p) in [("strict", Some(&l.strict)), ("inject", l.inject.as_ref())] {
            if let Some(p) = p {
                merge_json(&mut probes, &serde_json::to_value(&p.probes).unwrap());
                steps_run += p.probes.steps;
                skipped_steps += p.steps.iter().filter(|s| s.skipped.is_some()).count() as u64;
                let checks = p.probes.output_file_checks + p.probes.listing_checks + p.probes.params_file_checks + p.probes.rejects_checked + p.probes.rejects_via_file;
                let fired: u64 = p.probes.faults_fired.values().sum();
                if checks > 0 || fired > 0 || !p.probes.disk_edits.is_empty() {
                    digests.insert(format!("{pname}:{}", p.digest));
                }
                for k in &p.key_orders {
                    key_orders.insert(k.clone());
                }
            }
        }
        if tname == "sweep" {
            let kind = l.scenario.template.split(':').nth(1).unwrap_or("").split('@').next().unwrap_or("").to_string();
            let landed = l.inject.as_ref().map(|p| p.probes.faults_fired.values().sum::<u64>() + p.probes.disk_edits.values().sum::<u64>() > 0).unwrap_or(false);
            let e = sweep_stats.entry(kind).or_default();
            e.0 += 1;
            if landed {
                e.1 += 1;
            }
        }
        for (si, s) in l.scenario.steps.iter().enumerate() {
            for f in &s.faults {
                fault_sites.insert(format!("{}/{}/{}:{}@{}", tname, s.kind, f.op, f.kind, f.n));
            }
            let _ = si;
        }
        if samples.len() < 5 && l.inject.is_some() && !tname.starts_with("sweep") {
            samples.push(json!({"scenario": l.i, "template": l.scenario.template, "inputs": l.scenario.inputs,
                "steps": l.inject.as_ref().unwrap().steps.iter().map(|s| json!({"argv": s.argv, "exit": s.exit, "signal": s.signal, "fired": s.fired, "expectation": s.expectation})).collect::<Vec<_>>(),
                "faults": l.scenario.steps.iter().map(|s| &s.faults).collect::<Vec<_>>(), "disk_edits": l.scenario.edits}));
        }
    }
    if samples.is_empty() {
        if let Some(l) = all_lines.first() {
            samples.push(json!({"scenario": l.i, "template": l.scenario.template, "inputs": l.scenario.inputs}));
        }
    }
    let wall = t_start.elapsed().as_secs_f64();
    let mut warnings: Vec<String> = Vec::new();
    for name in ["roundtrip_across_midnight", "roundtrip_across_year", "roundtrip_clock_backwards", "torn_file_reread", "flip_still_decodes", "crash_in_params", "crash_in_output", "crash_in_stdout", "byte_identity_checks", "rejects_checked", "rejects_via_file", "defaulted_dates"] {
        if probes.get(name).and_then(|v| v.as_u64()).unwrap_or(0) == 0 {
            warnings.push(format!("reach probe '{name}' stayed at 0 in this batch (informational; never changes the exit status)"));
        }
    }
    let multithreaded = probes.get("multithreaded_steps").and_then(|v| v.as_u64()).unwrap_or(0);
    if multithreaded > 0 {
        warnings.push(format!("{multithreaded} steps created threads: their internal interleaving was not controlled by this simulator (results were still checked)"));
    }
    let ev = json!({
        "property_id": "C19",
        "tier": tier_s,
        "seed": seed,
        "level": "fault_enumeration",
        "wall_s": wall,
        "violations": violations.len(),
        "coverage": {
            "evaluations": steps_run.max(1),
            "distinct_nontrivial": digests.len(),
            "rule": "one evaluation = one process step: the real release binary run under the libc shim (simulated open/read/write results, crash points, getrandom, clock, TZ, core count) inside a scenario of 1-4 steps sharing a scratch directory; every scenario runs a fault-free pass (strict oracles) and, when faults apply, a fault-injecting pass with faults placed inside the operations seen in the fault-free pass. Scenarios are a pure function of (VERIF_SEED, index). distinct_nontrivial = distinct pass digests (argv, exit status, full shim event log, stdout, every file after every step) among passes in which at least one oracle check was evaluated or a fault / disk edit took effect.",
            "samples": samples,
            "scenarios": all_lines.len(),
            "scenarios_skipped_library_does_not_terminate": hung,
            "steps_not_run_unsafe_decoded_config": skipped_steps,
            "runs_per_hour": (all_lines.len() as f64 / wall * 3600.0) as u64,
            "steps_per_hour": (steps_run as f64 / wall * 3600.0) as u64,
            "simulated_clock_span": {"min_epoch_s": clock_span.0, "max_epoch_s": clock_span.1, "years": (clock_span.1 - clock_span.0) as f64 / 31_557_600.0},
            "scenarios_by_template": templates,
            "scenarios_by_method": methods,
            "distinct_fault_placements": fault_sites.len(),
            "distinct_parameter_file_key_orders": key_orders.len(),
            "dense_sweeps": sweep_stats.iter().map(|(k, (n, landed))| (k.clone(), json!({"scenarios": n, "fault_took_effect": landed}))).collect::<BTreeMap<_, _>>(),
            "probes": probes,
            "warnings": warnings,
            "components": {
                "real": ["the unmodified release binary built from /repo's working tree (main.rs, cli.rs, library)", "the library, linked into the harness as the reference (prayer_times_dt_rng, HijriDate, serde impls, ParamsConfig via #[path] include of /repo/src/cli.rs)", "the kernel file system of a per-scenario scratch directory"],
                "model": ["libc open/openat/creat/read/write/writev/close results on workload files and stdout, process death at a chosen call (LD_PRELOAD shim driven by a plan file)", "getrandom (hash seed), clock_gettime(CLOCK_REALTIME), TZ, sched_getaffinity", "the disk between steps: truncation, bit flips, zeroed tails, edited values"]
            },
            "determinism_check": det,
            "known_findings_hit": known_hits,
            "exhaustive": false
        },
        "assumptions": [
            "crash model is process death (kill -9 / abort): bytes already written survive; power loss and fsync are not modelled because the property promises no durability",
            "steps are single-threaded for <= 400 days (threshold 365 in main.rs); steps that create threads are counted and flagged, their internal schedule is not controlled here (C15 covers it)",
            "never generated: end before start, --end-date alone, decoded ranges outside 1..400 days (library defects outside this property, DESIGN.md §5)",
            "close() errors, atomic replacement of existing files, stderr text and the particular non-zero exit code are not asserted"
        ]
    });
    if let Some(p) = Path::new(&evidence).parent() {
        std::fs::create_dir_all(p).ok();
    }
    std::fs::write(&evidence, serde_json::to_vec_pretty(&ev).unwrap()).unwrap_or_else(|e| die(&format!("cannot write evidence: {e}")));
    let _ = std::fs::remove_dir_all(&dir);

    for k in &known_hits {
        println!("{k}");
    }
    println!("C19: {} scenarios, {} process steps, {} distinct non-trivial passes, {} distinct fault placements, {:.1} s", all_lines.len(), steps_run, digests.len(), fault_sites.len(), wall);
    for w in &warnings {
        println!("note: {w}");
    }
    if violations.is_empty() {
        println!("C19 held on everything explored");
        0
    } else {
        for (case, path, log) in &violations {
            println!("class={} scenario={} pass={} step={} template={}", case.class, case.run, case.pass, case.step, case.scenario.template);
            println!("message: {}", case.message);
            for l in log {
                println!("minimiser: {l}");
            }
            println!("VIOLATION property=C19 replay={}", path.display());
        }
        1
    }
}

pub fn replay(args: &[String]) -> i32 {
    let t = tools(args);
    let path = args.get(2).cloned().unwrap_or_else(|| die("replay FILE"));
    let case: CaseFile = serde_json::from_slice(&std::fs::read(&path).unwrap_or_else(|_| die("cannot read replay file"))).unwrap_or_else(|e| die(&format!("bad replay file: {e}")));
    let dir = scratch_dir("replay");
    let r = probe(&dir, &t, &case);
    let _ = std::fs::remove_dir_all(&dir);
    let r = match r {
        Some(r) => r,
        None => die("replay did not complete"),
    };
    println!("replay of {path}: recorded class={} pass={} step={}", case.class, case.pass, case.step);
    for s in &r.steps {
        println!("  step argv={:?} exit={:?} signal={:?} fired={:?}", s.argv, s.exit, s.signal, s.fired);
    }
    if r.violations.is_empty() {
        println!("not reproduced on this tree");
        0
    } else {
        for v in &r.violations {
            println!("violation class={} step={}: {}", v.class, v.step, v.message);
        }
        if let Some(s) = r.steps.get(case.step) {
            if !case.events.is_empty() && s.events != case.events {
                println!("note: the event log of step {} differs from the recording (code under test changed?)", case.step);
            }
        }
        println!("VIOLATION property=C19 replay={path}");
        1
    }
}

pub fn selftest(args: &[String]) -> i32 {
    let t = tools(args);
    let seed = arg_u64(args, "--seed", DEFAULT_SEED);
    let n = arg_u64(args, "--runs", 1000);
    let tier = tier_num(&arg_val(args, "--tier").unwrap_or_else(|| "quick".into()));
    let dir = scratch_dir("selftest");
    let mut maps: Vec<HashMap<u64, String>> = Vec::new();
    for jobs in [4u64, 16, 7] {
        let b = run_batch(&dir.join(format!("j{jobs:03}")), &t, seed, tier, 0, n, n, jobs, 1);
        maps.push(b.lines.iter().map(|l| (l.i, format!("{}/{}", l.strict.digest, l.inject.as_ref().map(|p| p.digest.clone()).unwrap_or_default()))).collect());
    }
    let _ = std::fs::remove_dir_all(&dir);
    let mut mism = 0;
    for i in 0..n {
        let d: Vec<_> = maps.iter().map(|m| m.get(&i)).collect();
        if d.iter().any(|x| x.is_none()) || d.iter().any(|x| x != &d[0]) {
            mism += 1;
            eprintln!("scenario {i}: digests {:?}", d);
        }
    }
    println!("selftest: seed {seed}, {n} scenarios x 3 job counts (4, 16, 7 processes): {mism} digest mismatches");
    if mism == 0 { 0 } else { 2 }
}
