//! Dense single-fault sweeps (crash-consistency practice): for a handful of seeded small
//! "A saves parameters and output; B reloads" scenarios, every write index as a crash point and as
//! an ENOSPC point, every prefix length of the parameter file as a torn write, every single-bit
//! flip of it. Index j of the sweep space maps to (base scenario, kind, position).

use crate::model::{DiskEdit, Env, FaultSpec, Inputs, Scenario, Step};
use crate::prng::SplitMix64;

pub const CRASH_MAX: u64 = 720;
pub const ENOSPC_MAX: u64 = 720;
pub const TORN_MAX: u64 = 560;
pub const FLIP_MAX: u64 = 560 * 8;
pub const PER_BASE: u64 = CRASH_MAX + ENOSPC_MAX + TORN_MAX + FLIP_MAX;

fn base(seed: u64, k: u64, methods: &[String]) -> Scenario {
    let mut r = SplitMix64::for_run(seed ^ 0x5EE9, k);
    let method = r.pick(methods).clone();
    let lat = r.f64_in(-50.0, 50.0, 3);
    let lon = r.f64_in(-179.0, 179.0, 3);
    let gmt = (lon / 15.0).round();
    let year = r.range(1900, 2100);
    let month = r.range(1, 12);
    let day = r.range(1, 28);
    let sink_file = k % 2 == 0;
    let env = |r: &mut SplitMix64| Env { hash_seed: r.next_u64() >> 1, clock: 1_700_000_000 + r.range(0, 1_000_000), tz: "UTC".into(), cores: 4 };
    let a = Step { kind: "A".into(), bad: None, save_params: Some("p.json".into()), input: None, output: if sink_file { Some("o1.json".into()) } else { None }, env: env(&mut r), faults: vec![], inputs: None };
    let b = Step { kind: "B".into(), bad: None, save_params: None, input: Some("p.json".into()), output: if sink_file { Some("o2.json".into()) } else { None }, env: env(&mut r), faults: vec![], inputs: None };
    Scenario {
        template: format!("sweep-base-{k}"),
        inputs: Inputs {
            method: Some(method),
            lat: format!("{lat}"),
            lon: format!("{lon}"),
            elev: if k % 3 == 0 { None } else { Some(format!("{}", r.f64_in(0.0, 3000.0, 1))) },
            gmt: format!("{gmt}"),
            start: Some(format!("{year:04}-{month:02}-{day:02}")),
            end: None,
        },
        steps: vec![a, b],
        edits: vec![],
        fault_specs: vec![],
    }
}

pub fn generate(seed: u64, j: u64, methods: &[String]) -> Scenario {
    let k = j / PER_BASE;
    let mut pos = j % PER_BASE;
    let mut sc = base(seed, k, methods);
    if pos < CRASH_MAX {
        sc.template = format!("sweep-base-{k}:crash@write{pos}");
        sc.fault_specs.push(FaultSpec { step: 0, target: "any".into(), op: "write".into(), at: 0, abs: Some(pos as i64), kind: "crash".into(), arg: 0 });
        return sc;
    }
    pos -= CRASH_MAX;
    if pos < ENOSPC_MAX {
        sc.template = format!("sweep-base-{k}:ENOSPC@write{pos}");
        sc.fault_specs.push(FaultSpec { step: 0, target: "any".into(), op: "write".into(), at: 0, abs: Some(pos as i64), kind: "ENOSPC".into(), arg: 1 });
        return sc;
    }
    pos -= ENOSPC_MAX;
    if pos < TORN_MAX {
        sc.template = format!("sweep-base-{k}:torn@{pos}");
        sc.edits.push(DiskEdit { before_step: 1, file: "p.json".into(), kind: "truncate-bytes".into(), pos, old: String::new(), new: String::new(), fault: true });
        return sc;
    }
    pos -= TORN_MAX;
    sc.template = format!("sweep-base-{k}:flip@{pos}");
    sc.edits.push(DiskEdit { before_step: 1, file: "p.json".into(), kind: "flip-abs".into(), pos, old: String::new(), new: String::new(), fault: true });
    sc
}
