//! Simulation runtime seam for `islamic_prayer_times` (only reachable with `--cfg ipt_verif`).
//!
//! `prayer_times_dt_rng_block` imports `{channel, thread}` from here instead of from `std` when the
//! guard is on. Everything the function can ask of `std::thread` / `std::sync::mpsc` is answered by
//! shuttle's controlled scheduler; `available_parallelism` is a value the simulator sets per run.
//!
//! Probe counters are plain `std` thread-locals (shuttle runs every task of one execution as a
//! coroutine on the OS thread that called `Runner::run`), contain no scheduling points and never
//! draw random numbers, so observing does not perturb the schedule.

use std::cell::Cell;
use std::sync::atomic::Ordering::Relaxed;
use std::time::Duration;

pub use shuttle::sync::mpsc::{RecvError, RecvTimeoutError, SendError, TryRecvError, TrySendError};

// Names that changed code plausibly uses unqualified inside the hooked function (imported at
// module level from `std::sync`): the hook's block-scoped `use` shadows them with shuttle's
// controlled equivalents, so that e.g. a Mutex/Condvar or atomic-counter refactor is simulated
// with scheduling points instead of running on real `std` primitives inside a coroutine.
pub use shuttle::sync::atomic::{
    AtomicBool, AtomicI32, AtomicI64, AtomicIsize, AtomicU32, AtomicU64, AtomicUsize,
};
pub use shuttle::sync::{Barrier, Mutex, MutexGuard, RwLock};

/// Result of a timed wait (`std::sync::WaitTimeoutResult` has no public constructor).
#[derive(Clone, Copy, Debug, PartialEq, Eq)]
pub struct WaitTimeoutResult(bool);
impl WaitTimeoutResult {
    pub fn timed_out(&self) -> bool {
        self.0
    }
}

/// A timer of the simulation: a short-lived extra task that performs `fire` at some later
/// scheduling point. shuttle's own timed waits (`Condvar::wait_timeout`, `park_timeout`) never time
/// out, which would turn correct code that relies on a timeout for progress into a false deadlock;
/// with a timer task every timed wait is eventually woken, exactly as in reality, and *when* is the
/// scheduler's decision like everything else.
fn sim_timer(fire: impl FnOnce() + Send + 'static) {
    bump(|p| p.timed_waits += 1);
    let _ = shuttle::thread::Builder::new().stack_size(1 << 16).spawn(move || {
        shuttle::thread::sleep(Duration::from_millis(0));
        fire();
    });
}

/// `std::sync::Condvar` stand-in: shuttle's, except that timed waits really time out.
#[derive(Debug, Default)]
pub struct Condvar {
    inner: Arc<shuttle::sync::Condvar>,
}
impl Condvar {
    pub fn new() -> Condvar {
        Condvar { inner: Arc::new(shuttle::sync::Condvar::new()) }
    }
    pub fn wait<'a, T>(&self, guard: MutexGuard<'a, T>) -> std::sync::LockResult<MutexGuard<'a, T>> {
        self.inner.wait(guard)
    }
    pub fn wait_while<'a, T, F>(&self, guard: MutexGuard<'a, T>, condition: F) -> std::sync::LockResult<MutexGuard<'a, T>>
    where
        F: FnMut(&mut T) -> bool,
    {
        self.inner.wait_while(guard, condition)
    }
    pub fn wait_timeout<'a, T>(&self, guard: MutexGuard<'a, T>, dur: Duration) -> std::sync::LockResult<(MutexGuard<'a, T>, WaitTimeoutResult)> {
        let fired = Arc::new(std::sync::atomic::AtomicBool::new(false));
        let returned = Arc::new(std::sync::atomic::AtomicBool::new(false));
        let (cv, f2, r2) = (self.inner.clone(), fired.clone(), returned.clone());
        // the timer keeps notifying until the waiter is back: a single notification could land in
        // the window between the spawn of the timer and the start of the wait and be lost
        sim_timer(move || {
            f2.store(true, Relaxed);
            while !r2.load(Relaxed) {
                cv.notify_all();
                shuttle::thread::yield_now();
            }
        });
        let r = self.inner.wait(guard);
        returned.store(true, Relaxed);
        let timed_out = fired.load(Relaxed);
        if timed_out {
            clock_advance(dur);
        }
        match r {
            Ok(g) => Ok((g, WaitTimeoutResult(timed_out))),
            Err(e) => Err(std::sync::PoisonError::new((e.into_inner(), WaitTimeoutResult(timed_out)))),
        }
    }
    pub fn wait_timeout_while<'a, T, F>(&self, mut guard: MutexGuard<'a, T>, dur: Duration, mut condition: F) -> std::sync::LockResult<(MutexGuard<'a, T>, WaitTimeoutResult)>
    where
        F: FnMut(&mut T) -> bool,
    {
        // one timer for the whole call: once it has fired the call returns whatever the condition says
        let fired = Arc::new(std::sync::atomic::AtomicBool::new(false));
        let returned = Arc::new(std::sync::atomic::AtomicBool::new(false));
        let (cv, f2, r2) = (self.inner.clone(), fired.clone(), returned.clone());
        sim_timer(move || {
            f2.store(true, Relaxed);
            while !r2.load(Relaxed) {
                cv.notify_all();
                shuttle::thread::yield_now();
            }
        });
        while condition(&mut *guard) {
            if fired.load(Relaxed) {
                returned.store(true, Relaxed);
                clock_advance(dur);
                return Ok((guard, WaitTimeoutResult(true)));
            }
            guard = match self.inner.wait(guard) {
                Ok(g) => g,
                Err(e) => {
                    returned.store(true, Relaxed);
                    return Err(std::sync::PoisonError::new((e.into_inner(), WaitTimeoutResult(fired.load(Relaxed)))));
                }
            };
        }
        returned.store(true, Relaxed);
        Ok((guard, WaitTimeoutResult(false)))
    }
    pub fn notify_one(&self) {
        self.inner.notify_one()
    }
    pub fn notify_all(&self) {
        self.inner.notify_all()
    }
}
pub use std::sync::Arc;
pub mod atomic {
    pub use shuttle::sync::atomic::*;
}
pub mod mpsc {
    pub use super::{
        channel, sync_channel, IntoIter, Iter, Receiver, RecvError, RecvTimeoutError, SendError, Sender,
        SyncSender, TryIter, TryRecvError, TrySendError,
    };
}

/// Per-execution probe counters (reset by the simulator before each execution).
#[derive(Clone, Copy, Debug, Default, PartialEq, Eq)]
pub struct Probes {
    pub avail_calls: u32,
    pub channels: u32,
    pub spawns: u32,
    pub sends: u32,
    pub send_errs: u32,
    pub recvs_ok: u32,
    pub recvs_disc: u32,
    pub recv_on_empty: u32,
    pub try_recv_empty: u32,
    pub timer_fires: u32,
    pub timer_polls: u32,
    pub sender_clones: u32,
    pub last_sender_drop_while_recv_waiting: u32,
    /// `sender_clones` at the moment of the first successful receive (the library clones the
    /// sender once per worker just before spawning it, so a value below the final
    /// `sender_clones` means the collector got a message before the last worker was spawned)
    pub clones_at_first_recv: u32,
    pub sleeps: u32,
    pub yields: u32,
    pub clock_reads: u32,
    pub clock_ticks: u32,
    pub timed_waits: u32,
}

thread_local! {
    static AVAIL: Cell<Option<usize>> = const { Cell::new(Some(1)) };
    static PROBES: Cell<Probes> = const { Cell::new(Probes {
        avail_calls: 0, channels: 0, spawns: 0, sends: 0, send_errs: 0, recvs_ok: 0,
        recvs_disc: 0, recv_on_empty: 0, try_recv_empty: 0, timer_fires: 0, timer_polls: 0,
        sender_clones: 0, last_sender_drop_while_recv_waiting: 0, clones_at_first_recv: 0,
        sleeps: 0, yields: 0, clock_reads: 0, clock_ticks: 0, timed_waits: 0 }) };
    /// upper bound on polling rounds of a simulated timer before it must fire
    static TIMER_MAX_POLLS: Cell<u32> = const { Cell::new(3) };
    /// simulated monotonic clock (ns); it only moves once the code under test has looked at it
    static SIM_NOW_NS: Cell<u64> = const { Cell::new(1_000_000_000) };
    static CLOCK_WATCHED: Cell<bool> = const { Cell::new(false) };
}

/// Let simulated time pass at a scheduling point: usually microseconds, sometimes (1 in 8) a long
/// stall of 0.1-20 s - a descheduled thread on a loaded machine. Drawn from the schedule's recorded
/// random source, so it replays. No-op (and no random draw) until the code under test reads the clock.
fn clock_tick() {
    if !CLOCK_WATCHED.with(|c| c.get()) || std::thread::panicking() {
        return;
    }
    use shuttle::rand::Rng;
    let mut rng = shuttle::rand::thread_rng();
    let r: u64 = rng.gen();
    let dt = if r % 8 == 0 { 100_000_000 + (r >> 8) % 20_000_000_000 } else { 1_000 + (r >> 8) % 200_000 };
    SIM_NOW_NS.with(|n| n.set(n.get().saturating_add(dt)));
    bump(|p| p.clock_ticks += 1);
}
fn clock_advance(d: Duration) {
    SIM_NOW_NS.with(|n| n.set(n.get().saturating_add(d.as_nanos().min(u64::MAX as u128 / 2) as u64)));
}

/// `std::time::Instant` stand-in on the simulated clock.
#[derive(Clone, Copy, Debug, PartialEq, Eq, PartialOrd, Ord, Hash)]
pub struct Instant(u64);

impl Instant {
    pub fn now() -> Instant {
        CLOCK_WATCHED.with(|c| c.set(true));
        bump(|p| p.clock_reads += 1);
        clock_tick();
        Instant(SIM_NOW_NS.with(|n| n.get()))
    }
    pub fn elapsed(&self) -> Duration {
        Instant::now().saturating_duration_since(*self)
    }
    pub fn duration_since(&self, earlier: Instant) -> Duration {
        self.saturating_duration_since(earlier)
    }
    pub fn saturating_duration_since(&self, earlier: Instant) -> Duration {
        Duration::from_nanos(self.0.saturating_sub(earlier.0))
    }
    pub fn checked_duration_since(&self, earlier: Instant) -> Option<Duration> {
        self.0.checked_sub(earlier.0).map(Duration::from_nanos)
    }
    pub fn checked_add(&self, d: Duration) -> Option<Instant> {
        u64::try_from(d.as_nanos()).ok().and_then(|n| self.0.checked_add(n)).map(Instant)
    }
    pub fn checked_sub(&self, d: Duration) -> Option<Instant> {
        u64::try_from(d.as_nanos()).ok().and_then(|n| self.0.checked_sub(n)).map(Instant)
    }
}
impl std::ops::Add<Duration> for Instant {
    type Output = Instant;
    fn add(self, d: Duration) -> Instant {
        self.checked_add(d).unwrap_or(Instant(u64::MAX))
    }
}
impl std::ops::AddAssign<Duration> for Instant {
    fn add_assign(&mut self, d: Duration) {
        *self = *self + d;
    }
}
impl std::ops::Sub<Duration> for Instant {
    type Output = Instant;
    fn sub(self, d: Duration) -> Instant {
        self.checked_sub(d).unwrap_or(Instant(0))
    }
}
impl std::ops::Sub<Instant> for Instant {
    type Output = Duration;
    fn sub(self, o: Instant) -> Duration {
        self.saturating_duration_since(o)
    }
}
pub mod time {
    pub use super::Instant;
    pub use std::time::{Duration, SystemTime, UNIX_EPOCH};
}

fn bump(f: impl FnOnce(&mut Probes)) {
    PROBES.with(|p| {
        let mut v = p.get();
        f(&mut v);
        p.set(v);
    })
}

/// Simulator side: value returned by the simulated `available_parallelism` (`None` = the call fails).
pub fn sim_set_available_parallelism(v: Option<usize>) {
    AVAIL.with(|a| a.set(v));
}
pub fn sim_reset_probes() {
    PROBES.with(|p| p.set(Probes::default()));
    SIM_NOW_NS.with(|n| n.set(1_000_000_000));
    CLOCK_WATCHED.with(|c| c.set(false));
}
pub fn sim_probes() -> Probes {
    PROBES.with(|p| p.get())
}
pub fn sim_set_timer_max_polls(n: u32) {
    TIMER_MAX_POLLS.with(|t| t.set(n));
}

pub mod thread {
    //! Stand-in for `std::thread` (superset of what the library uses).
    use super::*;
    pub use shuttle::thread::{current, park, spawn, JoinHandle, Thread, ThreadId};

    pub type Result<T> = std::thread::Result<T>;

    pub fn available_parallelism() -> std::io::Result<std::num::NonZeroUsize> {
        bump(|p| p.avail_calls += 1);
        match AVAIL.with(|a| a.get()) {
            Some(n) if n > 0 => Ok(std::num::NonZeroUsize::new(n).unwrap()),
            _ => Err(std::io::Error::new(
                std::io::ErrorKind::Unsupported,
                "simulated: available_parallelism failed",
            )),
        }
    }

    pub fn sleep(d: Duration) {
        bump(|p| p.sleeps += 1);
        super::clock_advance(d);
        shuttle::thread::sleep(d);
        super::clock_tick();
    }
    pub fn yield_now() {
        bump(|p| p.yields += 1);
        shuttle::thread::yield_now()
    }
    /// shuttle's `park_timeout` never times out; here a timer task unparks the thread eventually
    pub fn park_timeout(d: Duration) {
        let me = shuttle::thread::current();
        super::sim_timer(move || me.unpark());
        shuttle::thread::park();
        super::clock_advance(d);
        super::clock_tick();
    }

    /// `std::thread::scope` stand-in, built on shuttle's plain `spawn` rather than on shuttle's own
    /// `scope`: (1) shuttle's `spawn` has its scheduling point *before* the new task exists, so the
    /// spawner could never be pre-empted between a spawn and its next statement - the wrapper adds
    /// that point after every spawn; (2) shuttle's scope *unblocks the spawning task whenever the last
    /// scoped thread exits*, whatever that task is blocked on - a spawner waiting on a condition
    /// variable or parked with a timeout inside the scope would be woken "from nowhere" and shuttle
    /// panics ("should not have been woken while in Waiting status"): a false alarm on correct code.
    /// Here the end of the scope waits on a counter of running threads under its own lock.
    struct ScopeState {
        running: shuttle::sync::Mutex<usize>,
        all_done: shuttle::sync::Condvar,
    }
    pub struct Scope<'scope, 'env: 'scope> {
        state: Arc<ScopeState>,
        _scope: std::marker::PhantomData<&'scope mut &'scope ()>,
        _env: std::marker::PhantomData<&'env mut &'env ()>,
    }
    // only ever used from the coroutines of one shuttle execution (one OS thread)
    unsafe impl Sync for Scope<'_, '_> {}

    pub struct ScopedJoinHandle<'scope, T> {
        inner: JoinHandle<()>,
        slot: Arc<std::sync::Mutex<Option<T>>>,
        finished: Arc<std::sync::atomic::AtomicBool>,
        _scope: std::marker::PhantomData<&'scope ()>,
    }
    impl<'scope, T> ScopedJoinHandle<'scope, T> {
        pub fn join(self) -> Result<T> {
            self.inner.join()?;
            match self.slot.lock().unwrap().take() {
                Some(v) => Ok(v),
                None => Err(Box::new("scoped thread produced no value")),
            }
        }
        pub fn is_finished(&self) -> bool {
            self.finished.load(Relaxed)
        }
        pub fn thread(&self) -> &Thread {
            self.inner.thread()
        }
    }

    impl<'scope, 'env> Scope<'scope, 'env> {
        pub fn spawn<F, T>(&'scope self, f: F) -> ScopedJoinHandle<'scope, T>
        where
            F: FnOnce() -> T + Send + 'scope,
            T: Send + 'scope,
        {
            bump(|p| p.spawns += 1);
            *self.state.running.lock().unwrap() += 1;
            let slot: Arc<std::sync::Mutex<Option<T>>> = Arc::new(std::sync::Mutex::new(None));
            let finished = Arc::new(std::sync::atomic::AtomicBool::new(false));
            let (slot2, fin2, st) = (slot.clone(), finished.clone(), self.state.clone());
            let body: Box<dyn FnOnce() + Send + 'scope> = Box::new(move || {
                let v = f();
                *slot2.lock().unwrap() = Some(v);
                fin2.store(true, Relaxed);
                let mut n = st.running.lock().unwrap();
                *n -= 1;
                if *n == 0 {
                    st.all_done.notify_all();
                }
            });
            // SAFETY: `scope()` below does not return before `running` is back to 0, i.e. before every
            // spawned body has finished with everything it borrowed for `'scope` (same argument as
            // std's and shuttle's scoped threads).
            let body: Box<dyn FnOnce() + Send + 'static> = unsafe { std::mem::transmute(body) };
            let inner = shuttle::thread::spawn(body);
            sched_point();
            ScopedJoinHandle { inner, slot, finished, _scope: std::marker::PhantomData }
        }
    }

    /// `std::thread::Builder` stand-in (name and stack size are accepted and ignored for scoped
    /// threads; `spawn` delegates to shuttle's builder).
    #[derive(Debug, Default)]
    pub struct Builder {
        name: Option<String>,
        stack_size: Option<usize>,
    }
    impl Builder {
        pub fn new() -> Builder {
            Builder::default()
        }
        pub fn name(mut self, name: String) -> Builder {
            self.name = Some(name);
            self
        }
        pub fn stack_size(mut self, size: usize) -> Builder {
            self.stack_size = Some(size);
            self
        }
        pub fn spawn<F, T>(self, f: F) -> std::io::Result<JoinHandle<T>>
        where
            F: FnOnce() -> T + Send + 'static,
            T: Send + 'static,
        {
            let mut b = shuttle::thread::Builder::new();
            if let Some(n) = self.name {
                b = b.name(n);
            }
            if let Some(sz) = self.stack_size {
                b = b.stack_size(sz);
            }
            b.spawn(f)
        }
        pub fn spawn_scoped<'scope, 'env, F, T>(self, scope: &'scope Scope<'scope, 'env>, f: F) -> std::io::Result<ScopedJoinHandle<'scope, T>>
        where
            F: FnOnce() -> T + Send + 'scope,
            T: Send + 'scope,
        {
            Ok(scope.spawn(f))
        }
    }

    pub fn scope<'env, F, T>(f: F) -> T
    where
        F: for<'scope> FnOnce(&'scope Scope<'scope, 'env>) -> T,
    {
        let w = Scope {
            state: Arc::new(ScopeState { running: shuttle::sync::Mutex::new(0), all_done: shuttle::sync::Condvar::new() }),
            _scope: std::marker::PhantomData,
            _env: std::marker::PhantomData,
        };
        let out = f(&w);
        let mut n = w.state.running.lock().unwrap();
        while *n > 0 {
            n = w.state.all_done.wait(n).unwrap();
        }
        drop(n);
        out
    }
}

/// A plain scheduling point (not a yield hint, which would bias PCT); never while unwinding.
fn sched_point() {
    if !std::thread::panicking() {
        shuttle::thread::sleep(Duration::from_millis(0));
        clock_tick();
    }
}

struct Shared {
    queued: std::sync::atomic::AtomicIsize,
    senders: std::sync::atomic::AtomicUsize,
    receiver_waiting: std::sync::atomic::AtomicBool,
}

/// `std::sync::mpsc::channel` stand-in.
pub fn channel<T>() -> (Sender<T>, Receiver<T>) {
    bump(|p| p.channels += 1);
    let (tx, rx) = shuttle::sync::mpsc::channel();
    let shared = Arc::new(Shared {
        queued: std::sync::atomic::AtomicIsize::new(0),
        senders: std::sync::atomic::AtomicUsize::new(1),
        receiver_waiting: std::sync::atomic::AtomicBool::new(false),
    });
    (Sender { inner: Some(tx), shared: shared.clone() }, Receiver { inner: rx, shared })
}

/// `std::sync::mpsc::sync_channel` stand-in (bounded; `bound == 0` is a rendezvous channel).
pub fn sync_channel<T>(bound: usize) -> (SyncSender<T>, Receiver<T>) {
    bump(|p| p.channels += 1);
    let (tx, rx) = shuttle::sync::mpsc::sync_channel(bound);
    let shared = Arc::new(Shared {
        queued: std::sync::atomic::AtomicIsize::new(0),
        senders: std::sync::atomic::AtomicUsize::new(1),
        receiver_waiting: std::sync::atomic::AtomicBool::new(false),
    });
    (SyncSender { inner: Some(tx), shared: shared.clone() }, Receiver { inner: rx, shared })
}

pub struct SyncSender<T> {
    inner: Option<shuttle::sync::mpsc::SyncSender<T>>,
    shared: Arc<Shared>,
}
impl<T> SyncSender<T> {
    pub fn send(&self, t: T) -> std::result::Result<(), SendError<T>> {
        let r = self.inner.as_ref().unwrap().send(t);
        match &r {
            Ok(()) => {
                self.shared.queued.fetch_add(1, Relaxed);
                bump(|p| p.sends += 1)
            }
            Err(_) => bump(|p| p.send_errs += 1),
        }
        sched_point();
        r
    }
    pub fn try_send(&self, t: T) -> std::result::Result<(), TrySendError<T>> {
        let r = self.inner.as_ref().unwrap().try_send(t);
        match &r {
            Ok(()) => {
                self.shared.queued.fetch_add(1, Relaxed);
                bump(|p| p.sends += 1)
            }
            Err(_) => bump(|p| p.send_errs += 1),
        }
        sched_point();
        r
    }
}
impl<T> Clone for SyncSender<T> {
    fn clone(&self) -> Self {
        sched_point();
        bump(|p| p.sender_clones += 1);
        self.shared.senders.fetch_add(1, Relaxed);
        let c = SyncSender { inner: self.inner.clone(), shared: self.shared.clone() };
        sched_point();
        c
    }
}
impl<T> Drop for SyncSender<T> {
    fn drop(&mut self) {
        sched_point();
        let left = self.shared.senders.fetch_sub(1, Relaxed) - 1;
        if left == 0 && self.shared.receiver_waiting.load(Relaxed) && self.shared.queued.load(Relaxed) == 0 {
            bump(|p| p.last_sender_drop_while_recv_waiting += 1);
        }
        drop(self.inner.take());
    }
}
impl<T> std::fmt::Debug for SyncSender<T> {
    fn fmt(&self, f: &mut std::fmt::Formatter<'_>) -> std::fmt::Result {
        f.write_str("SyncSender { .. }")
    }
}

pub struct Sender<T> {
    inner: Option<shuttle::sync::mpsc::Sender<T>>,
    shared: Arc<Shared>,
}

impl<T> Sender<T> {
    pub fn send(&self, t: T) -> std::result::Result<(), SendError<T>> {
        let r = self.inner.as_ref().unwrap().send(t);
        match &r {
            Ok(()) => {
                self.shared.queued.fetch_add(1, Relaxed);
                bump(|p| p.sends += 1)
            }
            Err(_) => bump(|p| p.send_errs += 1),
        }
        sched_point();
        r
    }
}
impl<T> Clone for Sender<T> {
    fn clone(&self) -> Self {
        // shuttle's clone has no scheduling point; a real thread can be pre-empted on either side
        sched_point();
        bump(|p| p.sender_clones += 1);
        self.shared.senders.fetch_add(1, Relaxed);
        let c = Sender { inner: self.inner.clone(), shared: self.shared.clone() };
        sched_point();
        c
    }
}
impl<T> Drop for Sender<T> {
    fn drop(&mut self) {
        // A real thread can be pre-empted between its last use of a sender and the drop (shuttle's
        // own `Sender::drop` has no scheduling point, which would make e.g. "send; drop" atomic
        // and the spawning thread's `drop(tx)` atomic with its last spawn). `sleep` is a plain
        // scheduling point (not a yield hint, which would bias PCT). Never while unwinding.
        sched_point();
        let left = self.shared.senders.fetch_sub(1, Relaxed) - 1;
        if left == 0
            && self.shared.receiver_waiting.load(Relaxed)
            && self.shared.queued.load(Relaxed) == 0
        {
            bump(|p| p.last_sender_drop_while_recv_waiting += 1);
        }
        drop(self.inner.take());
    }
}
impl<T> std::fmt::Debug for Sender<T> {
    fn fmt(&self, f: &mut std::fmt::Formatter<'_>) -> std::fmt::Result {
        f.write_str("Sender { .. }")
    }
}

pub struct Receiver<T> {
    inner: shuttle::sync::mpsc::Receiver<T>,
    shared: Arc<Shared>,
}

impl<T> Receiver<T> {
    fn got(&self) {
        self.shared.queued.fetch_sub(1, Relaxed);
        bump(|p| {
            if p.recvs_ok == 0 {
                p.clones_at_first_recv = p.sender_clones;
            }
            p.recvs_ok += 1;
        });
    }

    pub fn recv(&self) -> std::result::Result<T, RecvError> {
        if self.shared.queued.load(Relaxed) <= 0 {
            bump(|p| p.recv_on_empty += 1);
        }
        self.shared.receiver_waiting.store(true, Relaxed);
        let r = self.inner.recv();
        self.shared.receiver_waiting.store(false, Relaxed);
        match &r {
            Ok(_) => self.got(),
            Err(_) => bump(|p| p.recvs_disc += 1),
        }
        sched_point();
        r
    }

    pub fn try_recv(&self) -> std::result::Result<T, TryRecvError> {
        let r = self.inner.try_recv();
        match &r {
            Ok(_) => self.got(),
            Err(TryRecvError::Empty) => bump(|p| p.try_recv_empty += 1),
            Err(TryRecvError::Disconnected) => bump(|p| p.recvs_disc += 1),
        }
        r
    }

    /// Simulated timer: shuttle's own `recv_timeout` never times out, which would make a
    /// timeout-based collector look correct. Here the timer is a scheduler-controlled event: while
    /// the queue is empty each polling round fires it with probability 1/2 (drawn from the
    /// schedule's recorded random source, so it replays), and it always fires after
    /// `TIMER_MAX_POLLS` rounds (a real timer cannot stay pending forever).
    pub fn recv_timeout(&self, _timeout: Duration) -> std::result::Result<T, RecvTimeoutError> {
        use shuttle::rand::Rng;
        let max = TIMER_MAX_POLLS.with(|t| t.get());
        let mut polls = 0;
        loop {
            match self.inner.try_recv() {
                Ok(v) => {
                    self.got();
                    return Ok(v);
                }
                Err(TryRecvError::Disconnected) => {
                    bump(|p| p.recvs_disc += 1);
                    return Err(RecvTimeoutError::Disconnected);
                }
                Err(TryRecvError::Empty) => {
                    bump(|p| p.timer_polls += 1);
                    polls += 1;
                    let fire = polls > max || shuttle::rand::thread_rng().gen::<bool>();
                    if fire {
                        bump(|p| p.timer_fires += 1);
                        clock_advance(_timeout);
                        return Err(RecvTimeoutError::Timeout);
                    }
                    shuttle::thread::yield_now();
                }
            }
        }
    }

    pub fn iter(&self) -> Iter<'_, T> {
        Iter { rx: self }
    }
    pub fn try_iter(&self) -> TryIter<'_, T> {
        TryIter { rx: self }
    }
}
impl<T> std::fmt::Debug for Receiver<T> {
    fn fmt(&self, f: &mut std::fmt::Formatter<'_>) -> std::fmt::Result {
        f.write_str("Receiver { .. }")
    }
}

pub struct Iter<'a, T> {
    rx: &'a Receiver<T>,
}
impl<T> Iterator for Iter<'_, T> {
    type Item = T;
    fn next(&mut self) -> Option<T> {
        self.rx.recv().ok()
    }
}
pub struct TryIter<'a, T> {
    rx: &'a Receiver<T>,
}
impl<T> Iterator for TryIter<'_, T> {
    type Item = T;
    fn next(&mut self) -> Option<T> {
        self.rx.try_recv().ok()
    }
}
pub struct IntoIter<T> {
    rx: Receiver<T>,
}
impl<T> Iterator for IntoIter<T> {
    type Item = T;
    fn next(&mut self) -> Option<T> {
        self.rx.recv().ok()
    }
}
impl<'a, T> IntoIterator for &'a Receiver<T> {
    type Item = T;
    type IntoIter = Iter<'a, T>;
    fn into_iter(self) -> Iter<'a, T> {
        self.iter()
    }
}
impl<T> IntoIterator for Receiver<T> {
    type Item = T;
    type IntoIter = IntoIter<T>;
    fn into_iter(self) -> IntoIter<T> {
        IntoIter { rx: self }
    }
}
