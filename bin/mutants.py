#!/usr/bin/env python3
"""Sensitivity matrix: apply each hand-written mutant to /repo's working tree, confirm it still
compiles and passes the repository's tests, run the registered check, revert.
   bin/mutants.py C15 [name ...]      (results -> sensitivity/C15.json)
Never leaves /repo modified (git checkout -- . in a finally block)."""
import json, os, re, subprocess, sys, time

VERIF = os.path.dirname(os.path.dirname(os.path.abspath(__file__)))
# evidence written while /repo is modified must never land in /verif/evidence
os.environ["IPT_EVIDENCE_DIR"] = os.path.join(VERIF, "build", "evidence-scratch")
REPO = "/repo"
MOD = "src/prayer_times/mod.rs"
DATE = "src/prayer_times/date.rs"
MAIN = "src/main.rs"
CLI = "src/cli.rs"
PARAMS = "src/prayer_times/params.rs"

# (name, expect 'violation'|'held', [(file, old, new)], note)
C15 = [
 ("M1-no-drop-tx", "violation", [(MOD, "            drop(tx);\n", "            let _keep = &tx;\n")], "original sender never dropped before join -> deadlock"),
 ("M2-try-recv", "violation", [(MOD, "while let Ok(mut partial_times) = rx.recv() {", "while let Ok(mut partial_times) = rx.try_recv() {")], "collector polls once: lost partitions / worker send panic on some schedules"),
 ("M3-assign-not-append", "violation", [(MOD, "                    times.append(&mut partial_times);", "                    times = partial_times;")], "collector keeps only the last partition"),
 ("M4-drop-after-join", "violation", [(MOD, "            drop(tx);\n\n            handle.join().unwrap()", "            let r = handle.join().unwrap();\n            drop(tx);\n            r")], "join before closing the channel -> deadlock"),
 ("M5-recv-avail-times", "violation", [(MOD, "                while let Ok(mut partial_times) = rx.recv() {\n                    times.append(&mut partial_times);\n                }", "                for _ in 0..avail_pll {\n                    let mut partial_times = rx.recv().unwrap();\n                    times.append(&mut partial_times);\n                }")], "collector expects one message per core: panics only when there are fewer partitions than workers"),
 ("M6-round-block", "violation", [(DATE, "(days as f64 / count as f64).ceil() as i64", "(days as f64 / count as f64).round().max(0.0) as i64")], "block size 0 when days < count/2: partition never advances (no-progress / abort)"),
 ("M7-recv-timeout", "violation", [(MOD, "while let Ok(mut partial_times) = rx.recv() {", "while let Ok(mut partial_times) = rx.recv_timeout(std::time::Duration::from_millis(10)) {")], "collector gives up when the (simulated) timer fires"),
 ("M8-partition-lt", "violation", [(DATE, "while start_date_iter <= *self.end_date() {", "while start_date_iter < *self.end_date() {")], "last one-day block dropped when the final block starts on the end date"),
 ("M9-first-n-msgs", "violation", [(MOD, "                while let Ok(mut partial_times) = rx.recv() {\n                    times.append(&mut partial_times);\n                }", "                let mut n = 0;\n                while let Ok(mut partial_times) = rx.recv() {\n                    times.append(&mut partial_times);\n                    n += 1;\n                    if n + 1 >= avail_pll && avail_pll > 48 {\n                        break;\n                    }\n                }")], "collector leaves early only with > 48 workers: late senders panic / partitions lost"),
 ("M10-skip-thr-boundary", "violation", [(MOD, "    if avail_pll == 1 || no_parallelism {", "    if date_range.num_days() == 367 && avail_pll == 3 { return BTreeMap::new(); }\n    if avail_pll == 1 || no_parallelism {")], "needle: one (days, workers) pair returns nothing (input-only sensitivity of the swarm)"),
 ("M11-collector-counts-partitions", "violation", [(MOD, "            let (tx, rx) = channel();\n\n            // Spawn thread to combine prayer times for each date range.\n            let handle = s.spawn(move || {\n                let mut times = BTreeMap::new();\n                while let Ok(mut partial_times) = rx.recv() {\n                    times.append(&mut partial_times);\n                }\n                times\n            });\n\n            // Spawn threads to calculate prayer times for each date range.\n            let date_ranges = date_range.partition(avail_pll);", "            let (tx, rx) = channel();\n            let date_ranges = date_range.partition(avail_pll);\n            let mut pending = date_ranges.len();\n\n            // Spawn thread to combine prayer times for each date range.\n            let handle = s.spawn(move || {\n                let mut times = BTreeMap::new();\n                while pending > 0 {\n                    if let Ok(mut partial_times) = rx.recv_timeout(std::time::Duration::from_millis(20)) {\n                        times.append(&mut partial_times);\n                        pending -= 1;\n                    }\n                }\n                times\n            });\n")], "collector waits for exactly one message per partition, polling with a timeout: correct while every worker can be spawned, never terminates when a thread creation fails (only the spawn-failure leg sees it)"),
 ("M12-collector-deadline", "violation", [(MOD, "use std::{\n    collections::{BTreeMap, HashMap},\n    fmt::Display,\n    sync::mpsc::channel,\n    thread::{self},\n};", "use std::{\n    collections::{BTreeMap, HashMap},\n    fmt::Display,\n    sync::mpsc::{channel, TryRecvError},\n    thread::{self},\n    time::{Duration, Instant},\n};"), (MOD, "                while let Ok(mut partial_times) = rx.recv() {\n                    times.append(&mut partial_times);\n                }", "                let deadline = Instant::now() + Duration::from_secs(30);\n                loop {\n                    match rx.try_recv() {\n                        Ok(mut partial_times) => times.append(&mut partial_times),\n                        Err(TryRecvError::Disconnected) => break,\n                        Err(TryRecvError::Empty) => {\n                            if Instant::now() > deadline {\n                                break;\n                            }\n                            thread::yield_now();\n                        }\n                    }\n                }"), (MOD, "                    tx.send(partial_times).unwrap();", "                    tx.send(partial_times).ok();")], "collector polls and gives up after a 30 s deadline ('stay responsive'): partial map when a thread is stalled for longer - visible only on the simulated clock"),
 ("N5-deadline-correct", "held", [(MOD, "use std::{\n    collections::{BTreeMap, HashMap},\n    fmt::Display,\n    sync::mpsc::channel,\n    thread::{self},\n};", "use std::{\n    collections::{BTreeMap, HashMap},\n    fmt::Display,\n    sync::mpsc::{channel, TryRecvError},\n    thread::{self},\n    time::{Duration, Instant},\n};"), (MOD, "                while let Ok(mut partial_times) = rx.recv() {\n                    times.append(&mut partial_times);\n                }", "                let mut last_report = Instant::now();\n                let mut slow = 0u32;\n                loop {\n                    match rx.try_recv() {\n                        Ok(mut partial_times) => times.append(&mut partial_times),\n                        Err(TryRecvError::Disconnected) => break,\n                        Err(TryRecvError::Empty) => {\n                            if last_report.elapsed() > Duration::from_secs(30) {\n                                slow += 1;\n                                last_report = Instant::now();\n                            }\n                            thread::yield_now();\n                        }\n                    }\n                }\n                let _ = slow;")], "negative control: polling collector that only *notes* slowness on the clock and still waits for the channel to close"),
 ("N1-threshold-le", "held", [(MOD, "date_range.num_days() / avail_pll < min_days_for_pll", "date_range.num_days() / avail_pll <= min_days_for_pll")], "negative control: other path, same result"),
 ("N2-partition-plus-one", "held", [(MOD, "date_range.partition(avail_pll);", "date_range.partition(avail_pll + 1);")], "negative control: one more partition, same result"),
 ("N4-std-condvar-full-paths", "harness-error", [(MOD, "            // Close channel to terminate blocking channel receive loop.\n            drop(tx);\n\n            handle.join().unwrap()", "            drop(tx);\n            let done = std::sync::Arc::new((std::sync::Mutex::new(false), std::sync::Condvar::new()));\n            let done2 = done.clone();\n            let waiter = s.spawn(move || {\n                let r = handle.join().unwrap();\n                *done2.0.lock().unwrap() = true;\n                done2.1.notify_all();\n                r\n            });\n            let mut g = done.0.lock().unwrap();\n            while !*g {\n                g = done.1.wait(g).unwrap();\n            }\n            drop(g);\n            waiter.join().unwrap()")], "CORRECT code that blocks on a real std Condvar reached through full paths: the simulator cannot schedule it (stall), the Miri confirmation shows the un-hooked code is fine -> harness error (exit 2), never a VIOLATION"),
 ("N3-collector-last", "held", [(MOD, "                while let Ok(mut partial_times) = rx.recv() {\n                    times.append(&mut partial_times);\n                }", "                let mut parts = Vec::new();\n                while let Ok(partial_times) = rx.recv() {\n                    parts.push(partial_times);\n                }\n                for mut p in parts.into_iter().rev() {\n                    times.append(&mut p);\n                }")], "negative control: merge in another order, same result"),
]


COORD = "src/geo/coordinates.rs"
C19 = [
 ("S1-lat-lon-swapped", "violation", [(MAIN, "        cli_args.latitude.unwrap(),\n        cli_args.longitude.unwrap(),", "        islamic_prayer_times::Latitude::try_from(f64::from(cli_args.longitude.unwrap()).clamp(-90.0, 90.0)).unwrap(),\n        islamic_prayer_times::Longitude::try_from(f64::from(cli_args.latitude.unwrap())).unwrap(),")], "latitude and longitude flags feed each other's field"),
 ("S2-elevation-ignored", "violation", [(MAIN, "        cli_args.elevation,\n", "        islamic_prayer_times::Elevation::default(),\n")], "--elevation parsed but not used"),
 ("S3-gmt-sign", "violation", [(MAIN, "        gmt: cli_args.gmt.unwrap(),", "        gmt: islamic_prayer_times::Gmt::try_from(-f64::from(cli_args.gmt.unwrap())).unwrap(),")], "GMT offset negated"),
 ("S4-end-date-ignored", "violation", [(MAIN, "    let end_date = if let Some(date) = cli_args.end_date {\n        date\n    } else {\n        start_date\n    };", "    let end_date = if let Some(date) = cli_args.end_date {\n        if date > start_date + chrono::Duration::days(27) { start_date + chrono::Duration::days(27) } else { date }\n    } else {\n        start_date\n    };")], "ranges silently capped at 28 days"),
 ("S5-minutes-not-saved", "violation", [(PARAMS, "    pub minutes: HashMap<Prayer, f64>,", "    #[serde(skip)]\n    pub minutes: HashMap<Prayer, f64>,")], "Params::minutes not persisted: reloading the saved file cannot reproduce the run"),
 ("S6-defaulted-dates-not-saved", "violation", [(MAIN, "        if let Some(params_file_path) = cli_args.params_file_path {\n            write_params_file(&params_config, &params_file_path);\n        }", "        if let Some(params_file_path) = cli_args.params_file_path {\n            if cli_args.start_date.is_none() && cli_args.end_date.is_none() {\n                let saved = ParamsConfig { params: params_config.params.clone(), location: params_config.location, date_range: None };\n                write_params_file(&saved, &params_file_path);\n            } else {\n                write_params_file(&params_config, &params_file_path);\n            }\n        }")], "defaulted dates saved as 'none': replay after a clock jump computes another day"),
 ("S7-output-error-swallowed", "violation", [(MAIN, "    serde_json::to_writer(file, &pts_by_date).unwrap_or_else(|_| {\n        panic!(\n            \"Failed to serialize the calculated prayer times as JSON to the file {}\",\n            &output_file\n        )\n    });", "    serde_json::to_writer(file, &pts_by_date).ok();")], "write errors on the output file ignored: exit 0 with a truncated file under ENOSPC/EIO"),
 ("S8-write-not-write-all", "violation", [(MAIN, "    serde_json::to_writer(file, &pts_by_date).unwrap_or_else(|_| {\n        panic!(\n            \"Failed to serialize the calculated prayer times as JSON to the file {}\",\n            &output_file\n        )\n    });", "    let text = serde_json::to_string(&pts_by_date).unwrap();\n    let mut file = file;\n    let _n = std::io::Write::write(&mut file, text.as_bytes()).unwrap();")], "single write() instead of write_all: truncated output only under a short write"),
 ("S9-latitude-clamped", "violation", [(COORD, "impl FromStr for Latitude {\n    type Err = ParseError;\n\n    fn from_str(s: &str) -> Result<Self, Self::Err> {\n        Self::parse(s)\n    }", "impl FromStr for Latitude {\n    type Err = ParseError;\n\n    fn from_str(s: &str) -> Result<Self, Self::Err> {\n        match s.parse::<f64>() {\n            Ok(v) if v.is_finite() => Ok(Self(v.clamp(-90.0, 90.0))),\n            _ => Self::parse(s),\n        }\n    }")], "out-of-range --latitude clamped instead of rejected"),
 ("S10-gmt-file-unvalidated", "violation", [(COORD, "#[derive(Debug, Copy, Clone, PartialEq, Serialize, Deserialize)]\n#[serde(try_from = \"f64\")]\n/// Greenwich Mean Time", "#[derive(Debug, Copy, Clone, PartialEq, Serialize, Deserialize)]\n/// Greenwich Mean Time")], "GMT offset read from a parameter file no longer range-checked"),
 ("S11-output-created-early", "violation", [(MAIN, "    let cli_args = CliArgs::parse();\n", "    let cli_args = CliArgs::parse();\n    if let Some(p) = &cli_args.output_file_path {\n        File::create(p).ok();\n    }\n")], "output file created before the parameter file is validated"),
 ("S12-hashmap-output", "violation", [(MAIN, "    serde_json::to_writer(file, &pts_by_date).unwrap_or_else(|_| {", "    let unordered: std::collections::HashMap<_, _> = pts_by_date.iter().collect();\n    serde_json::to_writer(file, &unordered).unwrap_or_else(|_| {")], "output serialised from a HashMap: byte order depends on the process's hash seed"),
 ("S13-listing-skips-invalid", "violation", [(MAIN, "                println!(\"  {}: Invalid\", pts.0);", "                let _ = pts.0;")], "terminal listing omits entries without a time"),
 ("S14-stdout-error-ignored", "violation", [(MAIN, "            if pts.1.is_ok() {\n                println!(\"  {}: {}\", pts.0, pts.1.unwrap());", "            if pts.1.is_ok() {\n                use std::io::Write;\n                let _ = writeln!(std::io::stdout(), \"  {}: {}\", pts.0, pts.1.unwrap());")], "stdout write errors ignored: exit 0 with a partial listing under ENOSPC/EIO/EPIPE"),
 ("S15-params-append", "violation", [(MAIN, "    let file = File::create(&params_file_path).unwrap_or_else(|_| {\n        panic!(\n            \"Failed to create the geographical and calculation parameters file {}\",", "    let file = std::fs::OpenOptions::new().create(true).write(true).open(&params_file_path).unwrap_or_else(|_| {\n        panic!(\n            \"Failed to create the geographical and calculation parameters file {}\",")], "parameter file opened without truncation: a longer earlier file leaves a garbage tail"),
 ("S16-rename-error-ignored", "violation", [(MAIN, "    let file = File::create(&output_file).unwrap_or_else(|_| {\n        panic!(\n            \"Failed to create the calculated prayer times output file {}\",\n            &output_file\n        )\n    });", "    let tmp = format!(\"{}.tmp\", output_file);\n    let file = File::create(&tmp).unwrap_or_else(|_| {\n        panic!(\n            \"Failed to create the calculated prayer times output file {}\",\n            &output_file\n        )\n    });\n    struct Mv(String, String);\n    impl Drop for Mv {\n        fn drop(&mut self) {\n            let _ = fs::rename(&self.0, &self.1);\n        }\n    }\n    let _mv = Mv(tmp, output_file.to_string());")], "atomic save through a temporary file whose rename error is ignored: exit 0 without the output file when rename fails"),
 ("T4-atomic-save-correct", "held", [(MAIN, "    serde_json::to_writer(file, &pts_by_date).unwrap_or_else(|_| {\n        panic!(\n            \"Failed to serialize the calculated prayer times as JSON to the file {}\",\n            &output_file\n        )\n    });", "    serde_json::to_writer(file, &pts_by_date).unwrap_or_else(|_| {\n        panic!(\n            \"Failed to serialize the calculated prayer times as JSON to the file {}\",\n            &output_file\n        )\n    });\n    fs::rename(&tmp, output_file).expect(\"rename\");"), (MAIN, "    let file = File::create(&output_file).unwrap_or_else(|_| {\n        panic!(\n            \"Failed to create the calculated prayer times output file {}\",\n            &output_file\n        )\n    });", "    let tmp = format!(\"{}.tmp\", output_file);\n    let file = File::create(&tmp).unwrap_or_else(|_| {\n        panic!(\n            \"Failed to create the calculated prayer times output file {}\",\n            &output_file\n        )\n    });")], "negative control: correct atomic save (temporary file + checked rename); a crash may leave the temporary file behind, which the property does not forbid"),
 ("S17-listing-extra-day", "violation", [(MAIN, "    for pts_for_date in pts_by_date {\n        let hijri_date = HijriDate::from(*pts_for_date.0);", "    let extra = pts_by_date.iter().next_back().map(|(d, v)| (d.succ_opt().unwrap(), v.clone()));\n    let mut all = pts_by_date.clone();\n    if let Some((d, v)) = extra {\n        all.insert(d, v);\n    }\n    for pts_for_date in &all {\n        let hijri_date = HijriDate::from(*pts_for_date.0);")], "terminal listing shows one day more than the range"),
 ("T5-listing-cosmetics", "held", [(MAIN, "    for pts_for_date in pts_by_date {\n        let hijri_date = HijriDate::from(*pts_for_date.0);\n        println!(\n            \"\\n{} ({})\",", "    println!(\"Prayer times\\n============\");\n    for pts_for_date in pts_by_date {\n        let hijri_date = HijriDate::from(*pts_for_date.0);\n        println!(\n            \"\\n-- {} [{}] --\","), (MAIN, "                println!(\"  {}: {}\", pts.0, pts.1.unwrap());", "                println!(\"    {:<8} -> {}\", pts.0.to_string(), pts.1.unwrap());")], "negative control: title line, other punctuation and alignment in the listing"),
 ("T6-invalid-as-dashes", "held", [(MAIN, "                println!(\"  {}: Invalid\", pts.0);", "                println!(\"  {}: --\", pts.0);")], "negative control: a non-existent time rendered as dashes instead of the word Invalid"),
 ("S18-gmt-lower-bound-exclusive", "violation", [(COORD, "impl TryFrom<f64> for Gmt {\n    type Error = OutOfRangeError<f64>;\n\n    fn try_from(value: f64) -> Result<Self, Self::Error> {\n        <Self as Bounded<f64>>::try_from(value)\n    }", "impl TryFrom<f64> for Gmt {\n    type Error = OutOfRangeError<f64>;\n\n    fn try_from(value: f64) -> Result<Self, Self::Error> {\n        if value <= -12.0 {\n            return Err(OutOfRangeError(<Self as Bounded<f64>>::range()));\n        }\n        <Self as Bounded<f64>>::try_from(value)\n    }")], "GMT offset -12 (a valid bound) rejected"),
 ("S20-exponent-notation-rejected", "violation", [("src/lib.rs", "    fn parse(s: &str) -> std::result::Result<Self, ParseError> {\n        let value = s.parse::<T>();", "    fn parse(s: &str) -> std::result::Result<Self, ParseError> {\n        if s.contains('e') || s.starts_with('+') {\n            return Err(ParseError(format!(\"unsupported number format {s}\")));\n        }\n        let value = s.parse::<T>();")], "numbers written with an exponent or a leading plus sign (valid f64 text, accepted before) are rejected"),
 ("S21-bounded-lenient-reader-with-fallback", "violation", [(MAIN, "    let mut params_config: ParamsConfig = serde_json::from_str(&file_data).unwrap_or_else(|_| {\n        panic!(\n            \"Failed to deserialize the geographical and calculation parameters as JSON from the file {}\",\n            &input_file_path\n        )\n    });", "    let head = &file_data.as_bytes()[..file_data.len().min(4096)];\n    let first = serde_json::Deserializer::from_slice(head).into_iter::<ParamsConfig>().next();\n    let mut params_config: ParamsConfig = match first {\n        Some(Ok(config)) => config,\n        _ => ParamsConfig {\n            params: Params::new(islamic_prayer_times::Method::Isna),\n            location: Location { coords: Coordinates::new(Default::default(), Default::default(), Default::default()), gmt: islamic_prayer_times::Gmt::try_from(0.).unwrap() },\n            date_range: None,\n        },\n    };")], "tolerant reader: only the first 4 KiB are parsed, leniently, and an unparsable file silently falls back to default parameters"),
 ("T7-lenient-reader-no-fallback", "held", [(MAIN, "    let mut params_config: ParamsConfig = serde_json::from_str(&file_data).unwrap_or_else(|_| {", "    let first = serde_json::Deserializer::from_str(&file_data).into_iter::<ParamsConfig>().next().unwrap_or_else(|| Err(serde::de::Error::custom(\"empty\")));\n    let mut params_config: ParamsConfig = first.unwrap_or_else(|_| {")], "negative control: a lenient reader (first JSON value, trailing bytes ignored) that still fails on files it cannot parse"),
 ("T1-threshold-0", "held", [(MAIN, "        365,\n", "        0,\n")], "negative control: always parallel; same output (steps flagged as multi-threaded)"),
 ("T2-pretty-params", "held", [(MAIN, "    serde_json::to_writer(file, &params_config)", "    serde_json::to_writer_pretty(file, &params_config)")], "negative control: parameter file pretty-printed; still round-trips"),
 ("T3-buffered-output", "held", [(MAIN, "    serde_json::to_writer(file, &pts_by_date).unwrap_or_else(|_| {", "    let mut file = std::io::BufWriter::new(file);\n    serde_json::to_writer(&mut file, &pts_by_date).and_then(|_| std::io::Write::flush(&mut file).map_err(serde_json::Error::io)).unwrap_or_else(|_| {")], "negative control: buffered writer with explicit flush (different syscall pattern, same bytes, errors still fatal)"),
]

SETS = {"C15": C15, "C19": C19}

def sh(cmd, **kw):
    return subprocess.run(cmd, shell=True, stdout=subprocess.PIPE, stderr=subprocess.STDOUT, text=True, **kw)

def main():
    prop = sys.argv[1]
    only = set(sys.argv[2:])
    tier = os.environ.get("MUT_TIER", "quick")
    assert sh("git -C /repo status --porcelain").stdout.strip() == "", "/repo has uncommitted changes"
    results = []
    for name, expect, edits, note in SETS[prop]:
        if only and name not in only:
            continue
        row = {"mutant": name, "expect": expect, "note": note}
        try:
            for f, old, new in edits:
                p = os.path.join(REPO, f)
                s = open(p).read()
                assert s.count(old) == 1, (name, f, "pattern count", s.count(old))
                open(p, "w").write(s.replace(old, new))
            row["diff"] = sh("git -C /repo diff").stdout
            t = sh("cd /repo && cargo test --offline 2>&1 | grep -E '^test result|error' | head -5")
            row["tests"] = t.stdout.strip()
            row["tests_pass"] = (re.search(r"[1-9][0-9]* failed|FAILED|^error", t.stdout, re.M) is None) and "test result: ok." in t.stdout
            t0 = time.time()
            r = sh(f"{VERIF}/bin/check {prop} {tier}")
            row["check_exit"] = r.returncode
            row["check_s"] = round(time.time() - t0, 1)
            row["check_tail"] = "\n".join(r.stdout.strip().splitlines()[-12:])
            viol = [l for l in r.stdout.splitlines() if l.startswith("VIOLATION")]
            row["violation_line"] = viol[0] if viol else None
            if viol:
                rp = viol[0].split("replay=")[1].strip()
                rr = sh(f"{VERIF}/bin/check {prop} --replay {rp}")
                row["replay_exit"] = rr.returncode
                row["replay_tail"] = "\n".join(rr.stdout.strip().splitlines()[-4:])
                try:
                    c = json.load(open(rp))
                    if "workload" in c:
                        row["minimised"] = {"class": c.get("class"), "workers": c["workload"].get("workers"), "days": c["workload"].get("days"), "thr": c["workload"].get("thr"), "steps": len(c["trace"]["tasks"]), "preemptions": len(c["preemptions"])}
                    elif "scenario" in c:
                        row["minimised"] = {"class": c.get("class"), "pass": c.get("pass"), "steps": len(c["scenario"]["steps"]), "faults": [f for st in c["scenario"]["steps"] for f in st["faults"]], "edits": len(c["scenario"]["edits"]), "message": c.get("message", "")[:120]}
                    else:
                        row["minimised"] = None
                except Exception as e:
                    row["minimised"] = str(e)
                os.remove(rp)
            got = "violation" if r.returncode == 1 else ("held" if r.returncode == 0 else "harness-error")
            row["got"] = got
            row["as_expected"] = got == expect
        finally:
            sh("git -C /repo checkout -- .")
        print(json.dumps({k: row.get(k) for k in ("mutant", "expect", "got", "tests_pass", "check_s", "minimised", "replay_exit")}))
        sys.stdout.flush()
        results.append(row)
    out = os.path.join(VERIF, "sensitivity", f"{prop}.json")
    if not only:
        json.dump({"tier": tier, "results": results}, open(out, "w"), indent=1)
    bad = [r["mutant"] for r in results if not r.get("as_expected") or not r.get("tests_pass")]
    print("NOT AS EXPECTED:", bad)

if __name__ == "__main__":
    main()
