#!/usr/bin/env python3
"""Sensitivity matrix: apply each hand-written mutant to /repo's working tree, confirm it still
compiles and passes the repository's tests, run the registered check, revert.
   bin/mutants.py C15 [name ...]      (results -> sensitivity/C15.json)
Never leaves /repo modified (git checkout -- . in a finally block)."""
import json, os, re, subprocess, sys, time

VERIF = os.path.dirname(os.path.dirname(os.path.abspath(__file__)))
REPO = "/repo"
MOD = "src/prayer_times/mod.rs"
DATE = "src/prayer_times/date.rs"
MAIN = "src/main.rs"
CLI = "src/cli.rs"
PARAMS = "src/prayer_times/params.rs"

# (name, expect 'violation'|'held', [(file, old, new)], note)
C15 = [
 ("M1-no-drop-tx", "violation", [(MOD, "            drop(tx);\n", "            let _keep = &tx;\n")], "original sender never dropped before join -> deadlock"),
 ("M2-try-recv", "violation", [(MOD, "while let Ok(mut partial_times) = rx.recv() {", "while let Ok(mut partial_times) = rx.try_recv() {")], "collector polls once: lost partitions / worker send panic on some schedules"),
 ("M3-assign-not-append", "violation", [(MOD, "                    times.append(&mut partial_times);", "                    times = partial_times;")], "collector keeps only the last partition"),
 ("M4-drop-after-join", "violation", [(MOD, "            drop(tx);\n\n            handle.join().unwrap()", "            let r = handle.join().unwrap();\n            drop(tx);\n            r")], "join before closing the channel -> deadlock"),
 ("M5-recv-avail-times", "violation", [(MOD, "                while let Ok(mut partial_times) = rx.recv() {\n                    times.append(&mut partial_times);\n                }", "                for _ in 0..avail_pll {\n                    let mut partial_times = rx.recv().unwrap();\n                    times.append(&mut partial_times);\n                }")], "collector expects one message per core: panics only when there are fewer partitions than workers"),
 ("M6-round-block", "violation", [(DATE, "(days as f64 / count as f64).ceil() as i64", "(days as f64 / count as f64).round().max(0.0) as i64")], "block size 0 when days < count/2: partition never advances (no-progress / abort)"),
 ("M7-recv-timeout", "violation", [(MOD, "while let Ok(mut partial_times) = rx.recv() {", "while let Ok(mut partial_times) = rx.recv_timeout(std::time::Duration::from_millis(10)) {")], "collector gives up when the (simulated) timer fires"),
 ("M8-partition-lt", "violation", [(DATE, "while start_date_iter <= *self.end_date() {", "while start_date_iter < *self.end_date() {")], "last one-day block dropped when the final block starts on the end date"),
 ("M9-first-n-msgs", "violation", [(MOD, "                while let Ok(mut partial_times) = rx.recv() {\n                    times.append(&mut partial_times);\n                }", "                let mut n = 0;\n                while let Ok(mut partial_times) = rx.recv() {\n                    times.append(&mut partial_times);\n                    n += 1;\n                    if n + 1 >= avail_pll && avail_pll > 48 {\n                        break;\n                    }\n                }")], "collector leaves early only with > 48 workers: late senders panic / partitions lost"),
 ("M10-skip-thr-boundary", "violation", [(MOD, "    if avail_pll == 1 || no_parallelism {", "    if date_range.num_days() == 367 && avail_pll == 3 { return BTreeMap::new(); }\n    if avail_pll == 1 || no_parallelism {")], "needle: one (days, workers) pair returns nothing (input-only sensitivity of the swarm)"),
 ("N1-threshold-le", "held", [(MOD, "date_range.num_days() / avail_pll < min_days_for_pll", "date_range.num_days() / avail_pll <= min_days_for_pll")], "negative control: other path, same result"),
 ("N2-partition-plus-one", "held", [(MOD, "date_range.partition(avail_pll);", "date_range.partition(avail_pll + 1);")], "negative control: one more partition, same result"),
 ("N3-collector-last", "held", [(MOD, "                while let Ok(mut partial_times) = rx.recv() {\n                    times.append(&mut partial_times);\n                }", "                let mut parts = Vec::new();\n                while let Ok(partial_times) = rx.recv() {\n                    parts.push(partial_times);\n                }\n                for mut p in parts.into_iter().rev() {\n                    times.append(&mut p);\n                }")], "negative control: merge in another order, same result"),
]

SETS = {"C15": C15}

def sh(cmd, **kw):
    return subprocess.run(cmd, shell=True, stdout=subprocess.PIPE, stderr=subprocess.STDOUT, text=True, **kw)

def main():
    prop = sys.argv[1]
    only = set(sys.argv[2:])
    tier = os.environ.get("MUT_TIER", "quick")
    assert sh("git -C /repo status --porcelain").stdout.strip() == "", "/repo has uncommitted changes"
    results = []
    for name, expect, edits, note in SETS[prop]:
        if only and name not in only:
            continue
        row = {"mutant": name, "expect": expect, "note": note}
        try:
            for f, old, new in edits:
                p = os.path.join(REPO, f)
                s = open(p).read()
                assert s.count(old) == 1, (name, f, "pattern count", s.count(old))
                open(p, "w").write(s.replace(old, new))
            row["diff"] = sh("git -C /repo diff").stdout
            t = sh("cd /repo && cargo test --offline 2>&1 | grep -E '^test result|error' | head -5")
            row["tests"] = t.stdout.strip()
            row["tests_pass"] = (re.search(r"[1-9][0-9]* failed|FAILED|^error", t.stdout, re.M) is None) and "test result: ok." in t.stdout
            t0 = time.time()
            r = sh(f"{VERIF}/bin/check {prop} {tier}")
            row["check_exit"] = r.returncode
            row["check_s"] = round(time.time() - t0, 1)
            row["check_tail"] = "\n".join(r.stdout.strip().splitlines()[-12:])
            viol = [l for l in r.stdout.splitlines() if l.startswith("VIOLATION")]
            row["violation_line"] = viol[0] if viol else None
            if viol:
                rp = viol[0].split("replay=")[1].strip()
                rr = sh(f"{VERIF}/bin/check {prop} --replay {rp}")
                row["replay_exit"] = rr.returncode
                row["replay_tail"] = "\n".join(rr.stdout.strip().splitlines()[-4:])
                try:
                    c = json.load(open(rp))
                    row["minimised"] = {"class": c.get("class"), "workers": c["workload"].get("workers"), "days": c["workload"].get("days"), "thr": c["workload"].get("thr"), "steps": len(c["trace"]["tasks"]), "preemptions": len(c["preemptions"])} if "workload" in c else None
                except Exception as e:
                    row["minimised"] = str(e)
                os.remove(rp)
            got = "violation" if r.returncode == 1 else ("held" if r.returncode == 0 else "harness-error")
            row["got"] = got
            row["as_expected"] = got == expect
        finally:
            sh("git -C /repo checkout -- .")
        print(json.dumps({k: row.get(k) for k in ("mutant", "expect", "got", "tests_pass", "check_s", "minimised", "replay_exit")}))
        sys.stdout.flush()
        results.append(row)
    out = os.path.join(VERIF, "sensitivity", f"{prop}.json")
    if not only:
        json.dump({"tier": tier, "results": results}, open(out, "w"), indent=1)
    bad = [r["mutant"] for r in results if not r.get("as_expected") or not r.get("tests_pass")]
    print("NOT AS EXPECTED:", bad)

if __name__ == "__main__":
    main()
