#!/bin/sh
# Run the quick tier of both checks under several VERIF_SEED values on the current tree and report
# any non-zero exit (used to look for false alarms on the unchanged tree; not a registered check).
cd "$(dirname "$0")/.." || exit 2
bad=0
for s in "$@"; do
  for p in C15 C19; do
    out=$(VERIF_SEED=$s bin/check $p quick 2>&1); rc=$?
    echo "seed=$s $p exit=$rc $(echo "$out" | grep -E '^C1[59]: ' | head -1)"
    if [ $rc -ne 0 ]; then bad=1; echo "$out" | tail -15; fi
  done
done
exit $bad
