#!/usr/bin/env python3
"""Intake of a seeded change written by a sub-agent in a scratch worktree.
   bin/seeded.py <id> <property> <worktree> [--tier quick]
 1. confirms in the worktree: patch applies to a clean checkout, the repository's test suite passes
    with it (demo excluded), the demo fails with it and passes without it;
 2. copies patch.diff, demo and notes to /verif/seeded/<id>/;
 3. applies the patch to /repo, runs the registered check, reverts (/repo is left clean);
 4. writes /verif/seeded/<id>/meta.json.
"""
import json, os, re, shutil, subprocess, sys, time

VERIF = os.path.dirname(os.path.dirname(os.path.abspath(__file__)))
# evidence written while /repo is modified must never land in /verif/evidence
os.environ["IPT_EVIDENCE_DIR"] = os.path.join(VERIF, "build", "evidence-scratch")

def sh(cmd, cwd=None, timeout=3600):
    try:
        r = subprocess.run(cmd, shell=True, cwd=cwd, stdout=subprocess.PIPE, stderr=subprocess.STDOUT, text=True, timeout=timeout)
        return r.returncode, r.stdout
    except subprocess.TimeoutExpired as e:
        return 124, (e.stdout or "") + "\n[timeout]"

def tests_ok(out):
    return re.search(r"[1-9][0-9]* failed|FAILED|^error", out, re.M) is None and "test result: ok." in out

def main():
    sid, prop, wt = sys.argv[1], sys.argv[2], sys.argv[3]
    tier = "quick"
    if "--tier" in sys.argv:
        tier = sys.argv[sys.argv.index("--tier") + 1]
    dest = os.path.join(VERIF, "seeded", sid)
    os.makedirs(dest, exist_ok=True)
    meta = {"id": sid, "property": prop, "source": "independent sub-agent, given only the property text and a scratch worktree"}
    patch = os.path.join(wt, "patch.diff")
    demo_cmd = open(os.path.join(wt, "demo_cmd.txt")).read().strip().splitlines()[-1].strip()
    meta["demo_cmd"] = demo_cmd
    # demo files = untracked files in the worktree except deliverable texts / build output
    rc, out = sh("git status --porcelain --untracked-files=all", cwd=wt)
    demo_files = [l[3:] for l in out.splitlines() if l.startswith("?? ") and not l[3:].startswith("target/") and l[3:] not in ("patch.diff", "demo_cmd.txt", "notes.md")]
    # ---- 1. confirm
    assert sh("git diff --quiet -- src", cwd=wt)[0] != 0 or True
    sh("git checkout -- src", cwd=wt)                      # clean tree
    rc, out = sh(f"git apply --check {patch}", cwd=wt)
    meta["patch_applies"] = rc == 0
    # without the change
    demo_excl = " ".join(f"--test {os.path.splitext(os.path.basename(f))[0]}" for f in demo_files if f.startswith("tests/"))
    rc0, out0 = sh(demo_cmd, cwd=wt, timeout=1800)
    meta["demo_without_change"] = {"exit": rc0, "tail": out0.strip().splitlines()[-6:]}
    sh(f"git apply {patch}", cwd=wt)
    # existing suite with the change (the demo test file, if any, is moved aside)
    moved = []
    for f in demo_files:
        if f.startswith("tests/"):
            os.rename(os.path.join(wt, f), os.path.join(wt, f + ".aside")); moved.append(f)
    rc, out = sh("cargo test --offline 2>&1 | grep -E '^test result|^error|FAILED' | head -20", cwd=wt, timeout=1800)
    for f in moved:
        os.rename(os.path.join(wt, f + ".aside"), os.path.join(wt, f))
    meta["suite_with_change"] = {"pass": tests_ok(out), "summary": out.strip().splitlines()}
    rc1, out1 = sh(demo_cmd, cwd=wt, timeout=1800)
    meta["demo_with_change"] = {"exit": rc1, "tail": out1.strip().splitlines()[-6:]}
    meta["confirmed"] = bool(meta["patch_applies"] and meta["suite_with_change"]["pass"] and rc0 == 0 and rc1 != 0)
    # ---- 2. copy
    shutil.copy(patch, os.path.join(dest, "patch.diff"))
    for f in demo_files + ["notes.md", "demo_cmd.txt"]:
        src = os.path.join(wt, f)
        if os.path.exists(src):
            d = os.path.join(dest, "demo", f) if f not in ("notes.md", "demo_cmd.txt") else os.path.join(dest, f)
            os.makedirs(os.path.dirname(d), exist_ok=True)
            shutil.copy(src, d)
    meta["lines_changed"] = sum(1 for l in open(patch) if (l.startswith("+") or l.startswith("-")) and not l.startswith(("+++", "---")))
    # ---- 3. our check against it
    assert sh("git -C /repo status --porcelain")[1].strip() == "", "/repo not clean"
    try:
        rc, out = sh(f"git -C /repo apply {os.path.join(dest, 'patch.diff')}")
        assert rc == 0, out
        t0 = time.time()
        rc, out = sh(f"{VERIF}/bin/check {prop} {tier}", timeout=7200)
        viol = [l for l in out.splitlines() if l.startswith("VIOLATION")]
        meta["check"] = {"cmd": f"bin/check {prop} {tier}", "exit": rc, "seconds": round(time.time() - t0, 1), "detected": rc == 1 and bool(viol), "tail": out.strip().splitlines()[-14:]}
        if viol:
            rp = viol[0].split("replay=")[1].strip()
            rrc, rout = sh(f"{VERIF}/bin/check {prop} --replay {rp}")
            meta["check"]["replay_exit"] = rrc
            meta["check"]["replay_tail"] = rout.strip().splitlines()[-5:]
            shutil.copy(rp, os.path.join(dest, "replay.json"))
            os.remove(rp)
    finally:
        sh("git -C /repo checkout -- .")
    assert sh("git -C /repo status --porcelain")[1].strip() == ""
    json.dump(meta, open(os.path.join(dest, "meta.json"), "w"), indent=1)
    print(json.dumps({k: meta[k] for k in ("id", "confirmed", "lines_changed")}), json.dumps({k: meta["check"].get(k) for k in ("exit", "detected", "seconds", "replay_exit")}))
    print("\n".join(meta["check"]["tail"][-8:]))

if __name__ == "__main__":
    main()
