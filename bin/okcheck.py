#!/usr/bin/env python3
"""Property-PRESERVING changes written by independent sub-agents (controls): apply each variant to
/repo, confirm the repository's tests pass, run the registered quick check, revert.
   bin/okcheck.py <id> <C15|C19> <worktree-or-dir-with-variantN.diff> [--tier quick]
Copies the diffs and notes to /verif/controls/<id>/ and writes results.json there. An exit status
other than 0 on a correct variant is a false alarm of the machinery (or a bug in the variant -
to be decided by reading the replay)."""
import glob, json, os, re, shutil, subprocess, sys, time
VERIF = os.path.dirname(os.path.dirname(os.path.abspath(__file__)))
# evidence written while /repo is modified must never land in /verif/evidence
os.environ["IPT_EVIDENCE_DIR"] = os.path.join(VERIF, "build", "evidence-scratch")
def sh(c, timeout=7200, cwd=None):
    r = subprocess.run(c, shell=True, stdout=subprocess.PIPE, stderr=subprocess.STDOUT, text=True, timeout=timeout, cwd=cwd)
    return r.returncode, r.stdout
def main():
    cid, prop, src = sys.argv[1], sys.argv[2], sys.argv[3]
    dest = os.path.join(VERIF, "controls", cid)
    os.makedirs(dest, exist_ok=True)
    for f in sorted(glob.glob(os.path.join(src, "variant*.diff"))) + [os.path.join(src, "notes.md")]:
        if os.path.exists(f) and os.path.abspath(os.path.dirname(f)) != os.path.abspath(dest):
            shutil.copy(f, dest)
    results = []
    assert sh("git -C /repo status --porcelain")[1].strip() == ""
    for d in sorted(glob.glob(os.path.join(dest, "variant*.diff"))):
        row = {"variant": os.path.basename(d)}
        try:
            rc, out = sh(f"git -C /repo apply {d}")
            if rc != 0:
                row["apply"] = out.strip()[:300]
                results.append(row); print(row); continue
            rc, out = sh("cargo test --offline 2>&1 | grep -E '^test result|^error|FAILED' | head", cwd="/repo")
            row["tests_pass"] = re.search(r"[1-9][0-9]* failed|FAILED|^error", out, re.M) is None and "test result: ok." in out
            t0 = time.time()
            rc, out = sh(f"{VERIF}/bin/check {prop} quick")
            row["check_exit"] = rc
            row["seconds"] = round(time.time() - t0, 1)
            row["tail"] = out.strip().splitlines()[-10:]
            viol = [l for l in out.splitlines() if l.startswith("VIOLATION")]
            if viol:
                rp = viol[0].split("replay=")[1].strip()
                shutil.copy(rp, os.path.join(dest, os.path.basename(d) + ".replay.json"))
                os.remove(rp)
        finally:
            sh("git -C /repo checkout -- .")
        results.append(row)
        print(json.dumps({k: row.get(k) for k in ("variant", "tests_pass", "check_exit", "seconds")}))
        if row.get("check_exit") != 0:
            print("\n".join(row.get("tail", [])))
    json.dump(results, open(os.path.join(dest, "results.json"), "w"), indent=1)
    assert sh("git -C /repo status --porcelain")[1].strip() == ""
if __name__ == "__main__":
    main()
