#!/bin/sh
# Thorough tier of both checks under other seeds (false-alarm hunt at depth; not a registered check).
cd "$(dirname "$0")/.." || exit 2
export IPT_EVIDENCE_DIR="$PWD/build/evidence-scratch"
bad=0
for s in "$@"; do
  for p in C19 C15; do
    out=$(VERIF_SEED=$s bin/check $p thorough 2>&1); rc=$?
    echo "seed=$s $p thorough exit=$rc $(echo "$out" | grep -E '^C1[59]: ' | head -1)"
    if [ $rc -ne 0 ]; then bad=1; echo "$out" | tail -15; fi
  done
done
exit $bad
