#!/usr/bin/env python3
"""C15 third leg: thread-creation failure on the REAL code with REAL threads (the fault shuttle
cannot simulate, DESIGN.md §2.4). The release CLI binary is run under the libc shim with a
simulated core count small enough for the parallel path (threshold 365 days per core in main.rs)
and the k-th pthread_create failing with EAGAIN. Required: the process terminates (std panics on
a failed spawn, the scope must still unwind: no thread left blocked on an open channel) with a
non-zero exit; the same command without the fault exits 0 and its output equals the output of a
run confined to one core (sequential path).
   bin/spawn_leg.py run [--out FILE] [--cases N]      exit 0 held / 1 VIOLATION / 2 harness error
   bin/spawn_leg.py replay FILE
The schedule of these real threads is not controlled; only the fault is. A hang is a detected
state (timeout), everything else about interleavings is C15's shuttle leg.
"""
import json, os, subprocess, sys, tempfile, time, hashlib

VERIF = os.path.dirname(os.path.dirname(os.path.abspath(__file__)))
BIN = os.path.join(VERIF, "target", "cli", "release", "islamic_prayer_times")
SHIM = os.path.join(VERIF, "build", "libiptsim.so")
TIMEOUT = 60

def run_cli(d, cores, days, fail_thread, tag):
    plan = os.path.join(d, f"plan-{tag}.txt")
    log = os.path.join(d, f"ev-{tag}.log")
    out = os.path.join(d, "w", f"out-{tag}.json")
    os.makedirs(os.path.join(d, "w"), exist_ok=True)
    with open(plan, "w") as f:
        f.write(f"log {log}\nprefix {d}/w/\nrand 12345\nclock 1700000000 0\ncores {cores}\n")
        if fail_thread is not None:
            f.write(f"fault thread {fail_thread} EAGAIN 0\n")
    end = subprocess.run(["date", "-u", "-d", f"2001-01-01 +{days - 1} days", "+%Y-%m-%d"], stdout=subprocess.PIPE, text=True).stdout.strip()
    argv = [BIN, "--latitude=21.4", "--longitude=39.8", "--gmt=3", "--method=mwl", "--start-date=2001-01-01", f"--end-date={end}", f"--output-file-path={out}"]
    env = {"LD_PRELOAD": SHIM, "IPTSIM_PLAN": plan, "TZ": "UTC", "RUST_BACKTRACE": "0"}
    t0 = time.time()
    try:
        r = subprocess.run(argv, env=env, stdout=subprocess.DEVNULL, stderr=subprocess.PIPE, timeout=TIMEOUT)
        rc, err, hung = r.returncode, r.stderr.decode(errors="replace")[-300:], False
    except subprocess.TimeoutExpired:
        rc, err, hung = None, "", True
    ev = open(log).read() if os.path.exists(log) else ""
    threads = ev.count("pthread_create #")
    fired = "-> EAGAIN" in ev
    data = open(out, "rb").read() if os.path.exists(out) else None
    return {"rc": rc, "hung": hung, "threads": threads, "fired": fired, "wall_s": round(time.time() - t0, 2), "stderr": err, "out_sha": hashlib.sha256(data).hexdigest() if data else None}

def one_case(cores, days, fail_thread):
    with tempfile.TemporaryDirectory(prefix="ipt-spawn-") as d:
        return run_cli(d, cores, days, fail_thread, "x")

def run(args):
    out_path = args[args.index("--out") + 1] if "--out" in args else os.path.join(VERIF, "build", "spawn_leg.json")
    if not (os.path.exists(BIN) and os.path.exists(SHIM)):
        print("spawn leg: harness error: CLI binary or shim missing"); return 2
    summary = {"status": "ok", "cases": [], "executions": 0, "faults_fired": 0}
    rc_final = 0
    configs = [(2, 2 * 365 + 3), (3, 3 * 365 + 1), (4, 4 * 365 + 200), (8, 8 * 365 + 5)]
    for cores, days in configs:
        base1 = one_case(1, days, None)          # sequential path
        basen = one_case(cores, days, None)      # parallel path, no fault
        summary["executions"] += 2
        row = {"cores": cores, "days": days, "threads_created_without_fault": basen["threads"], "faulted": []}
        problem = None
        if base1["rc"] != 0 or basen["rc"] != 0 or basen["hung"]:
            problem = f"fault-free run failed (1 core: {base1['rc']}, {cores} cores: {basen['rc']}, hung={basen['hung']})"
        elif base1["out_sha"] != basen["out_sha"]:
            problem = "fault-free parallel output differs from the one-core output"
        elif basen["threads"] == 0:
            row["note"] = "parallel path not taken (no thread created): nothing to fault"
        for k in range(basen["threads"] if problem is None else 0):
            r = one_case(cores, days, k)
            summary["executions"] += 1
            summary["faults_fired"] += 1 if r["fired"] else 0
            row["faulted"].append({"failing_spawn": k, "rc": r["rc"], "hung": r["hung"], "fired": r["fired"], "wall_s": r["wall_s"]})
            if r["hung"]:
                problem = f"spawn #{k} refused (EAGAIN): the process did not terminate within {TIMEOUT} s"
            elif r["fired"] and r["rc"] == 0:
                problem = f"spawn #{k} refused (EAGAIN) but the process exited 0"
            if problem:
                break
        summary["cases"].append(row)
        if problem:
            summary["status"] = "violation"
            rp = os.path.join(VERIF, "replays", f"C15-spawn-{cores}-{days}.json")
            os.makedirs(os.path.dirname(rp), exist_ok=True)
            k = row["faulted"][-1]["failing_spawn"] if row["faulted"] else None
            json.dump({"property": "C15", "engine": "spawn-fault", "class": "no-termination-after-spawn-failure" if "terminate" in problem else "spawn-fault", "cores": cores, "days": days, "failing_spawn": k, "message": problem}, open(rp, "w"), indent=1)
            print(f"spawn leg: cores={cores} days={days}: {problem}")
            print(f"VIOLATION property=C15 replay={rp}")
            rc_final = 1
            break
    json.dump(summary, open(out_path, "w"), indent=1)
    print(f"spawn leg: {summary['status']}, {summary['executions']} real executions, {summary['faults_fired']} refused thread creations")
    return rc_final

def replay(args):
    c = json.load(open(args[0]))
    k = c.get("failing_spawn")
    if k is None:
        # the fault-free comparison failed: parallel path vs one core
        a, b = one_case(1, c["days"], None), one_case(c["cores"], c["days"], None)
        print(f"spawn replay (fault-free): 1 core rc={a['rc']}, {c['cores']} cores rc={b['rc']} hung={b['hung']} same_output={a['out_sha'] == b['out_sha']}")
        bad = a["rc"] != 0 or b["rc"] != 0 or b["hung"] or a["out_sha"] != b["out_sha"]
    else:
        r = one_case(c["cores"], c["days"], k)
        print(f"spawn replay: rc={r['rc']} hung={r['hung']} fired={r['fired']}")
        bad = r["hung"] or (r["fired"] and r["rc"] == 0)
    if bad:
        print(f"VIOLATION property=C15 replay={args[0]}")
        return 1
    print("not reproduced on this tree")
    return 0

if __name__ == "__main__":
    sys.exit(run(sys.argv[2:]) if len(sys.argv) > 1 and sys.argv[1] == "run" else replay(sys.argv[2:]))
