#!/usr/bin/env python3
"""Re-run the registered quick check against every kept seeded change (apply, check, replay, revert)
and update meta.json's `recheck` field.  bin/recheck_seeded.py [C15|C19]"""
import json, os, subprocess, sys, time
VERIF = os.path.dirname(os.path.dirname(os.path.abspath(__file__)))
# evidence written while /repo is modified must never land in /verif/evidence
os.environ["IPT_EVIDENCE_DIR"] = os.path.join(VERIF, "build", "evidence-scratch")
def sh(c, timeout=7200):
    r = subprocess.run(c, shell=True, stdout=subprocess.PIPE, stderr=subprocess.STDOUT, text=True, timeout=timeout)
    return r.returncode, r.stdout
only = sys.argv[1] if len(sys.argv) > 1 else None
assert sh("git -C /repo status --porcelain")[1].strip() == ""
for d in sorted(os.listdir(os.path.join(VERIF, "seeded"))):
    mp = os.path.join(VERIF, "seeded", d, "meta.json")
    m = json.load(open(mp))
    if only and m["property"] != only:
        continue
    try:
        rc, out = sh(f"git -C /repo apply {os.path.join(VERIF, 'seeded', d, 'patch.diff')}")
        assert rc == 0, out
        t0 = time.time()
        rc, out = sh(f"{VERIF}/bin/check {m['property']} quick")
        viol = [l for l in out.splitlines() if l.startswith("VIOLATION")]
        rec = {"exit": rc, "detected": rc == 1 and bool(viol), "seconds": round(time.time() - t0, 1)}
        cls = [l for l in out.splitlines() if l.startswith("class=")]
        msg = [l for l in out.splitlines() if l.startswith("message:")]
        rec["class_line"] = cls[0] if cls else None
        rec["message"] = msg[0][:200] if msg else None
        if viol:
            rp = viol[0].split("replay=")[1].strip()
            rrc, _ = sh(f"{VERIF}/bin/check {m['property']} --replay {rp}")
            rec["replay_exit"] = rrc
            os.replace(rp, os.path.join(VERIF, "seeded", d, "replay.json"))
    finally:
        sh("git -C /repo checkout -- .")
    m["recheck"] = rec
    json.dump(m, open(mp, "w"), indent=1)
    print(d, rec["detected"], rec["seconds"], rec.get("class_line"), "|", (rec.get("message") or "")[:120])
assert sh("git -C /repo status --porcelain")[1].strip() == ""
