#!/usr/bin/env python3
"""C15 secondary leg (DESIGN.md §2.8): the UN-HOOKED library under Miri's seeded scheduler.
Real std::thread::scope / std::sync::mpsc / available_parallelism (= -Zmiri-num-cpus), Miri's
data-race, deadlock and UB detection.
   bin/miri_leg.py run [--seeds N] [--out FILE]     all configurations, N seeds each
   bin/miri_leg.py replay FILE                       one (cpus, days, thr, seed)
Exit 0 held / 1 violation (VIOLATION line) / 2 harness error. A timeout or a missing Miri never
decides the status: the leg then reports "skipped".
"""
import json, os, re, subprocess, sys, time

VERIF = os.path.dirname(os.path.dirname(os.path.abspath(__file__)))
CRATE = os.path.join(VERIF, "c15miri")
TARGET = os.path.join(VERIF, "target", "miri")
# (cpus, days, threshold): both sides of days vs workers, empty range, non-divisible lengths
CONFIGS = [(2, 2, 0), (2, 0, 0), (3, 2, 0), (3, 4, 1), (5, 5, 1), (3, 7, 2), (4, 1, 0), (2, 5, 3), (3, 3, 0, "panic")]
PREEMPT = ["0.01", "0.05", "0.2"]

def miri(cpus, days, thr, seeds, preempt, timeout, mode=None):
    env = dict(os.environ)
    env["CARGO_NET_OFFLINE"] = "true"
    env["MIRIFLAGS"] = f"-Zmiri-deterministic-floats -Zmiri-num-cpus={cpus} -Zmiri-many-seeds={seeds} -Zmiri-preemption-rate={preempt}"
    cmd = ["cargo", "+nightly", "miri", "run", "--offline", "--manifest-path", os.path.join(CRATE, "Cargo.toml"), "--target-dir", TARGET, "--", str(days), str(thr)] + ([mode] if mode else [])
    t0 = time.time()
    try:
        r = subprocess.run(cmd, env=env, stdout=subprocess.PIPE, stderr=subprocess.STDOUT, text=True, timeout=timeout)
        return r.returncode, r.stdout, time.time() - t0
    except subprocess.TimeoutExpired as e:
        return None, (e.stdout or b"").decode() if isinstance(e.stdout, bytes) else (e.stdout or ""), time.time() - t0

def classify(out):
    if "C15-MISMATCH" in out:
        return "mismatch"
    if "deadlock" in out:
        return "deadlock"
    if "Data race detected" in out or "data race" in out.lower():
        return "data-race"
    if "Undefined Behavior" in out:
        return "undefined-behavior"
    if "panicked at" in out:
        return "panic"
    return "error"

def prepare():
    subprocess.run(["python3", os.path.join(VERIF, "bin", "gen_shadow.py")], check=True)
    lock = os.path.join(CRATE, "Cargo.lock")
    if not os.path.exists(lock):
        import shutil; shutil.copy("/repo/Cargo.lock", lock)

def run(args):
    nseeds = int(args[args.index("--seeds") + 1]) if "--seeds" in args else 12
    out_path = args[args.index("--out") + 1] if "--out" in args else os.path.join(VERIF, "build", "miri_leg.json")
    summary = {"status": "ok", "configs": [], "seeds_total": 0, "flags": "-Zmiri-deterministic-floats -Zmiri-num-cpus=<W> -Zmiri-many-seeds=<a>..<b> -Zmiri-preemption-rate=<p>"}
    try:
        prepare()
        rc, out, _ = miri(2, 1, 0, "0..1", "0.01", 1500)   # builds the crate; proves Miri is usable
    except Exception as e:
        rc, out = 99, str(e)
    if rc != 0 and not re.search(r"C15-MISMATCH|deadlock|Undefined Behavior|panicked at", out or ""):
        summary["status"] = "skipped"
        summary["why"] = "Miri unavailable or build failed: " + (out or "")[-400:]
        json.dump(summary, open(out_path, "w"), indent=1)
        print("miri leg: skipped (Miri unavailable)")
        return 0
    exit_code = 0
    for k, cfg in enumerate(CONFIGS):
        cpus, days, thr = cfg[:3]
        mode = cfg[3] if len(cfg) > 3 else None
        preempt = PREEMPT[k % len(PREEMPT)]
        rc, out, wall = miri(cpus, days, thr, f"0..{nseeds}", preempt, 1800, mode)
        passed = out.count("ok cpus=")
        row = {"cpus": cpus, "days": days, "thr": thr, "mode": mode or "equal-maps", "seeds": f"0..{nseeds}", "preemption_rate": preempt, "passed": passed, "wall_s": round(wall, 1), "both_panicked": out.count("both panicked")}
        summary["seeds_total"] += passed
        if rc is None:
            row["result"] = "timeout (not decisive)"
            if summary["status"] == "ok":
                summary["status"] = "partial"
        elif rc != 0:
            # find the failing seed by re-running seeds one at a time
            cls = classify(out)
            bad = None
            for s in range(nseeds):
                rc1, out1, _ = miri(cpus, days, thr, f"{s}..{s+1}", preempt, 900, mode)
                if rc1 not in (0, None):
                    bad, cls = s, classify(out1)
                    out = out1
                    break
            row["result"] = f"VIOLATION {cls} seed={bad}"
            summary["status"] = "violation"
            rp = os.path.join(VERIF, "replays", f"C15-miri-{cpus}-{days}-{thr}-{bad}.json")
            os.makedirs(os.path.dirname(rp), exist_ok=True)
            msg = [l for l in out.splitlines() if re.search(r"error|panicked|MISMATCH|deadlock", l)][:6]
            json.dump({"property": "C15", "engine": "miri", "class": cls, "cpus": cpus, "days": days, "thr": thr, "mode": mode, "seed": bad, "preemption_rate": preempt, "message": msg}, open(rp, "w"), indent=1)
            summary["failure"] = {"replay": rp, "class": cls, "message": msg}
            print(f"miri leg: cpus={cpus} days={days} thr={thr} seed={bad}: {cls}")
            for l in msg:
                print("   " + l)
            print(f"VIOLATION property=C15 replay={rp}")
            exit_code = 1
            summary["configs"].append(row)
            break
        else:
            row["result"] = "ok"
        summary["configs"].append(row)
    json.dump(summary, open(out_path, "w"), indent=1)
    print(f"miri leg: {summary['status']}, {summary['seeds_total']} seeded executions over {len(summary['configs'])} configurations")
    return exit_code

def replay(args):
    c = json.load(open(args[0]))
    prepare()
    s = c["seed"] if c["seed"] is not None else 0
    rc, out, _ = miri(c["cpus"], c["days"], c["thr"], f"{s}..{s+1}", c.get("preemption_rate", "0.05"), 1800, c.get("mode"))
    if rc == 0:
        print("miri replay: not reproduced on this tree")
        return 0
    if rc is None:
        print("miri replay: timeout"); return 2
    print(f"miri replay: {classify(out)}")
    print(f"VIOLATION property=C15 replay={args[0]}")
    return 1

def confirm(args):
    """Is a stall seen under the simulator also a stall of the UN-HOOKED code? exit 0: the code
    completes correctly under Miri (stall not confirmed), 1: it fails there too, 3: it does not
    finish within the budget (stall confirmed)."""
    cpus, days, thr = int(args[0]), int(args[1]), int(args[2])
    prepare()
    import resource
    resource.setrlimit(resource.RLIMIT_AS, (24 << 30, 24 << 30))   # inherited by Miri: a runaway allocation cannot take the machine
    rc, out, wall = miri(cpus, days, thr, "0..2", "0.05", int(args[3]) if len(args) > 3 else 240)
    if rc is None:
        print(f"miri confirm: no result within the budget (cpus={cpus} days={days} thr={thr})")
        return 3
    if rc == 0:
        print(f"miri confirm: un-hooked code completes correctly in {wall:.0f} s")
        return 0
    print(f"miri confirm: un-hooked code fails too: {classify(out)}")
    return 1

if __name__ == "__main__":
    if len(sys.argv) < 2:
        sys.exit(2)
    cmd = sys.argv[1]
    sys.exit(run(sys.argv[2:]) if cmd == "run" else confirm(sys.argv[2:]) if cmd == "confirm" else replay(sys.argv[2:]))
