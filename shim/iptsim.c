/* iptsim: the simulated libc boundary of the islamic_prayer_times CLI (LD_PRELOAD).
 *
 * The simulator (the c19 harness) decides the result of every system call through which the
 * binary meets its workload files, stdout, the clock, the random source and the CPU count.  The
 * shim makes no choice of its own: it reads a plan (file named by IPTSIM_PLAN) once, applies it,
 * and appends one line per intercepted call to an event log through raw syscalls.
 *
 * Plan, one directive per line:
 *   log <path>              event log (appended)
 *   prefix <path-prefix>    paths starting with this prefix are "workload files"
 *   rand <u64>              seed of the byte stream returned by getrandom()
 *   clock <secs> <nsecs>    value of CLOCK_REALTIME (each call advances it by 1 ms)
 *   cores <n>               CPUs reported by sched_getaffinity
 *   fault <op> <n> <kind> [arg]
 *        op   = open | write | read | meta (n counts calls of that op on workload files / stdout, from 0;
 *               meta = rename/unlink/ftruncate/fsync/fdatasync on workload files: errno kinds or crash;
 *               thread = the n-th pthread_create of the process fails with EAGAIN)
 *        kind = an errno name (EACCES ENOENT ENOSPC EMFILE EINTR EIO EDQUOT EROFS EISDIR ENOMEM EPIPE);
 *               with arg 1 a write error is sticky: every later write on that fd fails the same way
 *               (a disk that is full stays full)
 *             | short <bytes>            transfer only that many bytes (at least 1, fewer than asked)
 *             | crash                    the process dies (SIGKILL) before the call has any effect
 *             | tear <bytes>             the call transfers that many bytes, then the process dies
 * Faults are aimed only at workload files and stdout (fd 1), never at the loader, /proc, /sys or
 * zoneinfo.  stderr is never touched.
 */
#define _GNU_SOURCE
#include <dlfcn.h>
#include <errno.h>
#include <fcntl.h>
#include <pthread.h>
#include <sched.h>
#include <signal.h>
#include <stdarg.h>
#include <stdint.h>
#include <stdio.h>
#include <stdlib.h>
#include <string.h>
#include <sys/random.h>
#include <sys/resource.h>
#include <sys/syscall.h>
#include <sys/types.h>
#include <time.h>
#include <unistd.h>

#define MAXFD 4096
#define MAXFAULT 64

enum { OP_OPEN, OP_WRITE, OP_READ, OP_META, OP_THREAD, OP_N };
enum { K_ERRNO, K_SHORT, K_CRASH, K_TEAR };

struct fault { int op; long n; int kind; long arg; int fired; int sticky; };

static int g_init;
static int g_logfd = -1;
static char g_prefix[512];
static size_t g_prefix_len;
static uint64_t g_rand = 0x853c49e6748fea9bULL;
static int g_have_rand;
static int64_t g_clock_s; static long g_clock_ns; static int g_have_clock;
static int g_cores;
static struct fault g_faults[MAXFAULT]; static int g_nfaults;
static int g_sticky[MAXFD];             /* errno that every further write on this fd returns (disk stays full) */
static unsigned char g_wl_fd[MAXFD];   /* 1 = workload file, 2 = created/truncated by this process */
static long g_count[OP_N];
static long g_seq;
static long g_threads;
static long g_io_tid;          /* thread that performed the first operation on a workload file */
static int g_io_multi;         /* set once a second thread does */

static const struct { const char *name; int val; } ERRNOS[] = {
    {"EACCES", EACCES}, {"ENOENT", ENOENT}, {"ENOSPC", ENOSPC}, {"EMFILE", EMFILE}, {"EINTR", EINTR},
    {"EIO", EIO}, {"EDQUOT", EDQUOT}, {"EROFS", EROFS}, {"EISDIR", EISDIR}, {"ENOMEM", ENOMEM},
    {"EAGAIN", EAGAIN}, {"EBADF", EBADF}, {"EPIPE", EPIPE}, {NULL, 0}};

static const char *errno_name(int e) {
    for (int i = 0; ERRNOS[i].name; i++) if (ERRNOS[i].val == e) return ERRNOS[i].name;
    return "E?";
}

static void raw_log(const char *fmt, ...) {
    if (g_logfd < 0) return;
    char buf[1024];
    va_list ap; va_start(ap, fmt);
    int n = vsnprintf(buf, sizeof buf, fmt, ap);
    va_end(ap);
    if (n < 0) return;
    if (n >= (int)sizeof buf) n = sizeof buf - 1;
    long off = 0;
    while (off < n) {
        long r = syscall(SYS_write, g_logfd, buf + off, (size_t)(n - off));
        if (r <= 0) break;
        off += r;
    }
}

static void die_now(void) {
    /* process death at this instant: nothing is flushed, no destructor runs */
    syscall(SYS_kill, syscall(SYS_getpid), SIGKILL);
    syscall(SYS_exit_group, 137);
    for (;;) {}
}

static void init(void) {
    if (g_init) return;
    g_init = 1;
    const char *plan = getenv("IPTSIM_PLAN");
    if (!plan) return;
    /* a runaway allocation in the program under test must abort that process, not the machine */
    struct rlimit rl = { 3UL << 30, 3UL << 30 };
    setrlimit(RLIMIT_AS, &rl);
    int fd = (int)syscall(SYS_openat, AT_FDCWD, plan, O_RDONLY | O_CLOEXEC);
    if (fd < 0) return;
    static char text[65536];
    long len = 0, r;
    while ((r = syscall(SYS_read, fd, text + len, sizeof text - 1 - len)) > 0) len += r;
    syscall(SYS_close, fd);
    text[len] = 0;
    char *save = NULL;
    for (char *line = strtok_r(text, "\n", &save); line; line = strtok_r(NULL, "\n", &save)) {
        char a[600], b[64], c[64];
        long n = 0, arg = 0;
        if (sscanf(line, "log %599s", a) == 1) {
            int lf = (int)syscall(SYS_openat, AT_FDCWD, a, O_WRONLY | O_CREAT | O_APPEND | O_CLOEXEC, 0644);
            if (lf >= 0) {
                int hi = (int)syscall(SYS_fcntl, lf, F_DUPFD_CLOEXEC, 900);
                if (hi >= 0) { syscall(SYS_close, lf); g_logfd = hi; } else g_logfd = lf;
            }
        } else if (sscanf(line, "prefix %511s", g_prefix) == 1) {
            g_prefix_len = strlen(g_prefix);
        } else if (sscanf(line, "rand %63s", b) == 1) {
            g_rand = strtoull(b, NULL, 10) | 1; g_have_rand = 1;
        } else if (sscanf(line, "clock %63s %63s", b, c) == 2) {
            g_clock_s = strtoll(b, NULL, 10); g_clock_ns = strtol(c, NULL, 10); g_have_clock = 1;
        } else if (sscanf(line, "cores %ld", &n) == 1) {
            g_cores = (int)n;
        } else if (sscanf(line, "fault %63s %ld %63s %ld", b, &n, c, &arg) >= 3 && g_nfaults < MAXFAULT) {
            struct fault f; memset(&f, 0, sizeof f);
            f.op = !strcmp(b, "open") ? OP_OPEN : !strcmp(b, "write") ? OP_WRITE : !strcmp(b, "meta") ? OP_META : !strcmp(b, "thread") ? OP_THREAD : OP_READ;
            f.n = n;
            if (!strcmp(c, "short")) { f.kind = K_SHORT; f.arg = arg; }
            else if (!strcmp(c, "crash")) f.kind = K_CRASH;
            else if (!strcmp(c, "tear")) { f.kind = K_TEAR; f.arg = arg; }
            else {
                f.kind = K_ERRNO; f.sticky = (arg == 1); f.arg = EIO;
                for (int i = 0; ERRNOS[i].name; i++) if (!strcmp(ERRNOS[i].name, c)) f.arg = ERRNOS[i].val;
            }
            g_faults[g_nfaults++] = f;
        }
    }
}

__attribute__((constructor)) static void ctor(void) { init(); }

/* operation indices are only meaningful while one thread does all the workload I/O; note when
 * that stops being true so that the harness neither trusts the order of the log nor aims faults
 * by index in such a step */
static void note_io_thread(void) {
    long tid = syscall(SYS_gettid);
    if (!g_io_tid) g_io_tid = tid;
    else if (tid != g_io_tid && !g_io_multi) {
        g_io_multi = 1;
        raw_log("%ld multi-thread-io\n", g_seq++);
    }
}

static struct fault *fault_for(int op, long n) {
    for (int i = 0; i < g_nfaults; i++)
        if (g_faults[i].op == op && g_faults[i].n == n && !g_faults[i].fired) return &g_faults[i];
    return NULL;
}

static int is_workload_path(const char *p) {
    return p && g_prefix_len && strncmp(p, g_prefix, g_prefix_len) == 0;
}

/* ---------------------------------------------------------------- open family */

static int do_open(int dirfd, const char *path, int flags, mode_t mode) {
    init();
    if (!is_workload_path(path))
        return (int)syscall(SYS_openat, dirfd, path, flags, mode);
    note_io_thread();
    long n = g_count[OP_OPEN]++;
    long seq = g_seq++;
    const char *rel = path + g_prefix_len;
    struct fault *f = fault_for(OP_OPEN, n);
    if (f) {
        f->fired = 1;
        if (f->kind == K_CRASH || f->kind == K_TEAR) {
            raw_log("%ld open#%ld %s flags=%s%s%s -> CRASH\n", seq, n, rel, (flags & O_ACCMODE) == O_RDONLY ? "r" : "w",
                    (flags & O_CREAT) ? "+creat" : "", (flags & O_TRUNC) ? "+trunc" : "");
            die_now();
        }
        if (f->kind == K_ERRNO) {
            raw_log("%ld open#%ld %s flags=%s%s%s -> %s\n", seq, n, rel, (flags & O_ACCMODE) == O_RDONLY ? "r" : "w",
                    (flags & O_CREAT) ? "+creat" : "", (flags & O_TRUNC) ? "+trunc" : "", errno_name((int)f->arg));
            errno = (int)f->arg;
            return -1;
        }
    }
    int fd = (int)syscall(SYS_openat, dirfd, path, flags, mode);
    if (fd >= 0 && fd < MAXFD) g_wl_fd[fd] = (flags & (O_CREAT | O_TRUNC)) ? 2 : 1;
    raw_log("%ld open#%ld %s flags=%s%s%s -> %s%d\n", seq, n, rel, (flags & O_ACCMODE) == O_RDONLY ? "r" : "w",
            (flags & O_CREAT) ? "+creat" : "", (flags & O_TRUNC) ? "+trunc" : "", fd >= 0 ? "fd" : "err", fd >= 0 ? fd : errno);
    return fd;
}

int open(const char *path, int flags, ...) {
    mode_t mode = 0;
    if (flags & (O_CREAT | O_TMPFILE)) { va_list ap; va_start(ap, flags); mode = va_arg(ap, mode_t); va_end(ap); }
    return do_open(AT_FDCWD, path, flags, mode);
}
int open64(const char *path, int flags, ...) {
    mode_t mode = 0;
    if (flags & (O_CREAT | O_TMPFILE)) { va_list ap; va_start(ap, flags); mode = va_arg(ap, mode_t); va_end(ap); }
    return do_open(AT_FDCWD, path, flags | O_LARGEFILE, mode);
}
int openat(int dirfd, const char *path, int flags, ...) {
    mode_t mode = 0;
    if (flags & (O_CREAT | O_TMPFILE)) { va_list ap; va_start(ap, flags); mode = va_arg(ap, mode_t); va_end(ap); }
    return do_open(dirfd, path, flags, mode);
}
int openat64(int dirfd, const char *path, int flags, ...) {
    mode_t mode = 0;
    if (flags & (O_CREAT | O_TMPFILE)) { va_list ap; va_start(ap, flags); mode = va_arg(ap, mode_t); va_end(ap); }
    return do_open(dirfd, path, flags | O_LARGEFILE, mode);
}
int creat(const char *path, mode_t mode) { return do_open(AT_FDCWD, path, O_CREAT | O_WRONLY | O_TRUNC, mode); }
int creat64(const char *path, mode_t mode) { return do_open(AT_FDCWD, path, O_CREAT | O_WRONLY | O_TRUNC | O_LARGEFILE, mode); }

int close(int fd) {
    init();
    if (fd >= 0 && fd < MAXFD && g_wl_fd[fd]) {
        g_wl_fd[fd] = 0;
        g_sticky[fd] = 0;
        raw_log("%ld close fd%d\n", g_seq++, fd);
    }
    if (fd == g_logfd) { errno = EBADF; return -1; }
    return (int)syscall(SYS_close, fd);
}

/* ---------------------------------------------------------------- write / read */

static int is_workload_fd_w(int fd) { return fd == 1 || (fd >= 0 && fd < MAXFD && g_wl_fd[fd]); }
static int is_workload_fd_r(int fd) { return fd >= 0 && fd < MAXFD && g_wl_fd[fd]; }

ssize_t write(int fd, const void *buf, size_t count) {
    init();
    if (!is_workload_fd_w(fd)) {
        long r = syscall(SYS_write, fd, buf, count);
        return r;
    }
    note_io_thread();
    long n = g_count[OP_WRITE]++;
    long seq = g_seq++;
    if (fd >= 0 && fd < MAXFD && g_sticky[fd]) {
        raw_log("%ld write#%ld fd%d %zu -> %s\n", seq, n, fd, count, errno_name(g_sticky[fd]));
        errno = g_sticky[fd];
        return -1;
    }
    struct fault *f = fault_for(OP_WRITE, n);
    if (f) {
        f->fired = 1;
        switch (f->kind) {
        case K_CRASH:
            raw_log("%ld write#%ld fd%d %zu -> CRASH\n", seq, n, fd, count);
            die_now();
            break;
        case K_TEAR: {
            size_t k = (size_t)f->arg;
            if (k > count) k = count;
            size_t off = 0;
            while (off < k) { long r = syscall(SYS_write, fd, (const char *)buf + off, k - off); if (r <= 0) break; off += r; }
            raw_log("%ld write#%ld fd%d %zu -> TEAR %zu\n", seq, n, fd, count, off);
            die_now();
            break;
        }
        case K_SHORT: {
            size_t k = (size_t)f->arg;
            if (count <= 1) { f->fired = 2; break; }    /* cannot be shortened: behaves as a normal write */
            if (k < 1) k = 1;
            if (k >= count) k = count - 1;
            long r = syscall(SYS_write, fd, buf, k);
            raw_log("%ld write#%ld fd%d %zu -> SHORT %ld\n", seq, n, fd, count, r);
            return r;
        }
        default:
            raw_log("%ld write#%ld fd%d %zu -> %s\n", seq, n, fd, count, errno_name((int)f->arg));
            if (f->sticky && fd >= 0 && fd < MAXFD) g_sticky[fd] = (int)f->arg;
            errno = (int)f->arg;
            return -1;
        }
    }
    long r = syscall(SYS_write, fd, buf, count);
    raw_log("%ld write#%ld fd%d %zu -> %ld\n", seq, n, fd, count, r);
    return r;
}

ssize_t read(int fd, void *buf, size_t count) {
    init();
    if (!is_workload_fd_r(fd)) return syscall(SYS_read, fd, buf, count);
    note_io_thread();
    long n = g_count[OP_READ]++;
    long seq = g_seq++;
    struct fault *f = fault_for(OP_READ, n);
    if (f) {
        f->fired = 1;
        switch (f->kind) {
        case K_CRASH: case K_TEAR:
            raw_log("%ld read#%ld fd%d %zu -> CRASH\n", seq, n, fd, count);
            die_now();
            break;
        case K_SHORT: {
            size_t k = (size_t)f->arg;
            if (count <= 1) { f->fired = 2; break; }
            if (k < 1) k = 1;
            if (k >= count) k = count - 1;
            long r = syscall(SYS_read, fd, buf, k);
            raw_log("%ld read#%ld fd%d %zu -> SHORT %ld\n", seq, n, fd, count, r);
            return r;
        }
        default:
            raw_log("%ld read#%ld fd%d %zu -> %s\n", seq, n, fd, count, errno_name((int)f->arg));
            errno = (int)f->arg;
            return -1;
        }
    }
    long r = syscall(SYS_read, fd, buf, count);
    raw_log("%ld read#%ld fd%d %zu -> %ld\n", seq, n, fd, count, r);
    return r;
}

/* writev is what a vectored println! would use; forwarded through write() so that it is counted */
#include <sys/uio.h>
ssize_t writev(int fd, const struct iovec *iov, int iovcnt) {
    init();
    if (!is_workload_fd_w(fd)) return syscall(SYS_writev, fd, iov, iovcnt);
    ssize_t total = 0;
    for (int i = 0; i < iovcnt; i++) {
        if (iov[i].iov_len == 0) continue;
        ssize_t r = write(fd, iov[i].iov_base, iov[i].iov_len);
        if (r < 0) return total ? total : -1;
        total += r;
        if ((size_t)r < iov[i].iov_len) break;
    }
    return total;
}


/* ---------------------------------------------------------------- rename / unlink / ftruncate / fsync
 * The shipped tool uses none of these; changed code might ("atomic save"). They are logged and
 * are fault / crash points like any other call on a workload file. */

static int meta_gate(const char *what, const char *a, const char *b, int fd) {
    note_io_thread();
    long n = g_count[OP_META]++;
    long seq = g_seq++;
    struct fault *f = fault_for(OP_META, n);
    char desc[700];
    if (a) snprintf(desc, sizeof desc, "%s %s%s%s", what, a, b ? " -> " : "", b ? b : "");
    else snprintf(desc, sizeof desc, "%s fd%d", what, fd);
    if (f) {
        f->fired = 1;
        if (f->kind == K_CRASH || f->kind == K_TEAR) { raw_log("%ld meta#%ld %s -> CRASH\n", seq, n, desc); die_now(); }
        if (f->kind == K_ERRNO) { raw_log("%ld meta#%ld %s -> %s\n", seq, n, desc, errno_name((int)f->arg)); errno = (int)f->arg; return -1; }
    }
    raw_log("%ld meta#%ld %s -> ok\n", seq, n, desc);
    return 0;
}
static const char *relp(const char *p) { return is_workload_path(p) ? p + g_prefix_len : p; }

int rename(const char *a, const char *b) {
    init();
    if ((is_workload_path(a) || is_workload_path(b)) && meta_gate("rename", relp(a), relp(b), -1) < 0) return -1;
    return (int)syscall(SYS_renameat2, AT_FDCWD, a, AT_FDCWD, b, 0);
}
int renameat(int da, const char *a, int db, const char *b) {
    init();
    if ((is_workload_path(a) || is_workload_path(b)) && meta_gate("rename", relp(a), relp(b), -1) < 0) return -1;
    return (int)syscall(SYS_renameat2, da, a, db, b, 0);
}
int renameat2(int da, const char *a, int db, const char *b, unsigned int flags) {
    init();
    if ((is_workload_path(a) || is_workload_path(b)) && meta_gate("rename", relp(a), relp(b), -1) < 0) return -1;
    return (int)syscall(SYS_renameat2, da, a, db, b, flags);
}
int unlink(const char *a) {
    init();
    if (is_workload_path(a) && meta_gate("unlink", relp(a), NULL, -1) < 0) return -1;
    return (int)syscall(SYS_unlinkat, AT_FDCWD, a, 0);
}
int unlinkat(int d, const char *a, int flags) {
    init();
    if (is_workload_path(a) && meta_gate("unlink", relp(a), NULL, -1) < 0) return -1;
    return (int)syscall(SYS_unlinkat, d, a, flags);
}
int ftruncate(int fd, off_t len) {
    init();
    if (is_workload_fd_r(fd) && meta_gate("ftruncate", NULL, NULL, fd) < 0) return -1;
    return (int)syscall(SYS_ftruncate, fd, len);
}
int ftruncate64(int fd, off_t len) {
    init();
    if (is_workload_fd_r(fd) && meta_gate("ftruncate", NULL, NULL, fd) < 0) return -1;
    return (int)syscall(SYS_ftruncate, fd, len);
}
int fsync(int fd) {
    init();
    if (is_workload_fd_r(fd) && meta_gate("fsync", NULL, NULL, fd) < 0) return -1;
    return (int)syscall(SYS_fsync, fd);
}
int fdatasync(int fd) {
    init();
    if (is_workload_fd_r(fd) && meta_gate("fdatasync", NULL, NULL, fd) < 0) return -1;
    return (int)syscall(SYS_fdatasync, fd);
}

/* ---------------------------------------------------------------- randomness, clock, cpus, threads */

static uint64_t next_rand(void) {
    g_rand += 0x9E3779B97F4A7C15ULL;
    uint64_t z = g_rand;
    z = (z ^ (z >> 30)) * 0xBF58476D1CE4E5B9ULL;
    z = (z ^ (z >> 27)) * 0x94D049BB133111EBULL;
    return z ^ (z >> 31);
}

ssize_t getrandom(void *buf, size_t buflen, unsigned int flags) {
    init();
    if (!g_have_rand) return syscall(SYS_getrandom, buf, buflen, flags);
    unsigned char *p = buf;
    for (size_t i = 0; i < buflen; i += 8) {
        uint64_t v = next_rand();
        size_t k = buflen - i < 8 ? buflen - i : 8;
        memcpy(p + i, &v, k);
    }
    raw_log("%ld getrandom %zu\n", g_seq++, buflen);
    return (ssize_t)buflen;
}

int clock_gettime(clockid_t clk, struct timespec *ts) {
    init();
    if (g_have_clock && clk == CLOCK_REALTIME) {
        ts->tv_sec = g_clock_s;
        ts->tv_nsec = g_clock_ns;
        g_clock_ns += 1000000;
        if (g_clock_ns >= 1000000000L) { g_clock_ns -= 1000000000L; g_clock_s++; }
        raw_log("%ld clock_gettime REALTIME -> %lld\n", g_seq++, (long long)ts->tv_sec);
        return 0;
    }
    return (int)syscall(SYS_clock_gettime, clk, ts);
}

int sched_getaffinity(pid_t pid, size_t cpusetsize, cpu_set_t *mask) {
    init();
    if (g_cores > 0 && mask) {
        memset(mask, 0, cpusetsize);
        for (int i = 0; i < g_cores && (size_t)i < cpusetsize * 8; i++) CPU_SET_S(i, cpusetsize, mask);
        raw_log("%ld sched_getaffinity -> %d cpus\n", g_seq++, g_cores);
        return 0;
    }
    long r = syscall(SYS_sched_getaffinity, pid, cpusetsize, mask);
    return r < 0 ? -1 : 0;
}

int pthread_create(pthread_t *t, const pthread_attr_t *a, void *(*fn)(void *), void *arg) {
    static int (*real)(pthread_t *, const pthread_attr_t *, void *(*)(void *), void *);
    init();
    if (!real) real = dlsym(RTLD_NEXT, "pthread_create");
    long n = g_threads++;
    struct fault *f = fault_for(OP_THREAD, n);
    if (f) {
        /* the OS refuses a thread (EAGAIN: RLIMIT_NPROC, out of memory for the stack, ...) */
        f->fired = 1;
        raw_log("%ld pthread_create #%ld -> EAGAIN\n", g_seq++, g_threads);
        return EAGAIN;
    }
    raw_log("%ld pthread_create #%ld\n", g_seq++, g_threads);
    return real(t, a, fn, arg);
}
