//! Secondary leg of C15 (DESIGN.md §2.8): the UN-HOOKED library (real std::thread::scope, real
//! std::sync::mpsc, real available_parallelism) under Miri's seeded scheduler.
//!   cargo +nightly miri run -- <days> <threshold>
//! The worker count is Miri's -Zmiri-num-cpus; the schedule is Miri's seed (-Zmiri-many-seeds).
use chrono::{Duration, NaiveDate};
use islamic_prayer_times::*;

fn main() {
    let args: Vec<String> = std::env::args().collect();
    let days: i64 = args.get(1).and_then(|s| s.parse().ok()).unwrap_or(3);
    let thr: usize = args.get(2).and_then(|s| s.parse().ok()).unwrap_or(0);
    let params = Params::new(Method::Isna);
    let coords = Coordinates::new(
        Latitude::try_from(21.4).unwrap(),
        Longitude::try_from(39.8).unwrap(),
        Elevation::try_from(300.).unwrap(),
    );
    let location = Location { coords, gmt: Gmt::try_from(3.).unwrap() };
    let start = NaiveDate::from_ymd_opt(2023, 12, 30).unwrap();
    let range = DateRange::from(start..=start + Duration::days(days - 1));
    let seq = prayer_times_dt_rng(&params, location, &range);
    let par = prayer_times_dt_rng_block(&params, location, &range, thr);
    assert_eq!(seq.len() as i64, days.max(0));
    assert!(par == seq, "C15-MISMATCH under Miri: parallel {} dates, sequential {} dates", par.len(), seq.len());
    println!("ok cpus={} days={} thr={}", std::thread::available_parallelism().map(|n| n.get()).unwrap_or(0), days, thr);
}
