//! Secondary leg of C15 (DESIGN.md §2.8): the UN-HOOKED library (real std::thread::scope, real
//! std::sync::mpsc, real available_parallelism) under Miri's seeded scheduler.
//!   cargo +nightly miri run -- <days> <threshold>
//! The worker count is Miri's -Zmiri-num-cpus; the schedule is Miri's seed (-Zmiri-many-seeds).
use chrono::{Duration, NaiveDate};
use islamic_prayer_times::*;

fn main() {
    let args: Vec<String> = std::env::args().collect();
    let days: i64 = args.get(1).and_then(|s| s.parse().ok()).unwrap_or(3);
    let thr: usize = args.get(2).and_then(|s| s.parse().ok()).unwrap_or(0);
    // mode "panic": an input on which the library itself panics (interval-based method at 80 N in
    // polar night, DESIGN.md §5): the parallel call must then end the same way as the sequential
    // one (a propagated panic), not hang - the case shuttle cannot simulate (§2.4)
    let panic_mode = args.get(3).map(|s| s == "panic").unwrap_or(false);
    let (params, lat, lon, gmt, start) = if panic_mode {
        (Params::new(Method::UmmAlQurra), 80.0, 20.0, 1.0, NaiveDate::from_ymd_opt(2023, 1, 4).unwrap())
    } else {
        (Params::new(Method::Isna), 21.4, 39.8, 3.0, NaiveDate::from_ymd_opt(2023, 12, 30).unwrap())
    };
    let coords = Coordinates::new(
        Latitude::try_from(lat).unwrap(),
        Longitude::try_from(lon).unwrap(),
        Elevation::try_from(300.).unwrap(),
    );
    let location = Location { coords, gmt: Gmt::try_from(gmt).unwrap() };
    let range = DateRange::from(start..=start + Duration::days(days - 1));
    std::panic::set_hook(Box::new(|_| {}));
    let seq = std::panic::catch_unwind(|| prayer_times_dt_rng(&params, location, &range));
    let par = std::panic::catch_unwind(|| prayer_times_dt_rng_block(&params, location, &range, thr));
    let _ = std::panic::take_hook();
    match (&seq, &par) {
        (Ok(s), Ok(p)) => {
            assert_eq!(s.len() as i64, days.max(0));
            assert!(p == s, "C15-MISMATCH under Miri: parallel {} dates, sequential {} dates", p.len(), s.len());
        }
        (Err(_), Err(_)) => {}
        (Ok(_), Err(_)) => panic!("C15-MISMATCH under Miri: parallel call panicked, sequential call returned"),
        (Err(_), Ok(_)) => panic!("C15-MISMATCH under Miri: sequential call panicked, parallel call returned"),
    }
    println!(
        "ok cpus={} days={} thr={} outcome={}",
        std::thread::available_parallelism().map(|n| n.get()).unwrap_or(0),
        days,
        thr,
        if seq.is_ok() { "equal maps" } else { "both panicked" }
    );
}
