//! Scheduler wrappers: recording (every decision of the wrapped shuttle scheduler is logged, so a
//! failing execution is an explicit list of task ids and random values) and guided (replays such a
//! list, strictly for `--replay`, leniently with sparse overrides for minimisation).

use crate::prng::{fnv1a, SplitMix64};
use serde::{Deserialize, Serialize};
use shuttle::scheduler::{Schedule, Scheduler, Task, TaskId};
use std::collections::HashSet;
use std::sync::{Arc, Mutex};

/// One recorded execution.
#[derive(Serialize, Deserialize, Clone, Debug, Default, PartialEq)]
pub struct Trace {
    /// task chosen at each scheduling step
    pub tasks: Vec<u32>,
    /// values handed out by the scheduler's random source, in order
    pub randoms: Vec<u64>,
    /// position in `tasks` before which the k-th random value was drawn
    pub random_at: Vec<u32>,
}

#[derive(Default, Debug)]
pub struct Recorded {
    pub current: Trace,
    pub executions: u64,
    pub steps_total: u64,
    pub context_switches: u64,
    pub preemptions: u64,
    /// steps at which more than one task was runnable (a real choice)
    pub choice_points: u64,
    pub max_tasks: u32,
    pub cur_had_choice: bool,
    pub cur_switches: u64,
    pub cur_preemptions: u64,
    pub cur_max_runnable: u32,
    /// hashes of (shape, task-id sequence) for executions that had at least one choice point
    pub interleavings: HashSet<u64>,
    pub shape_hash: u64,
    pub max_steps_seen: u64,
    pub stopped_no_concurrency: bool,
}

impl Recorded {
    fn finish_current(&mut self) {
        if self.current.tasks.is_empty() {
            return;
        }
        self.steps_total += self.current.tasks.len() as u64;
        self.max_steps_seen = self.max_steps_seen.max(self.current.tasks.len() as u64);
        if self.cur_had_choice {
            let mut bytes = Vec::with_capacity(8 + 4 * self.current.tasks.len());
            bytes.extend_from_slice(&self.shape_hash.to_le_bytes());
            for t in &self.current.tasks {
                bytes.extend_from_slice(&t.to_le_bytes());
            }
            self.interleavings.insert(fnv1a(&bytes));
        }
    }
}

pub struct RecordingScheduler<S: Scheduler> {
    inner: S,
    rec: Arc<Mutex<Recorded>>,
}

impl<S: Scheduler> RecordingScheduler<S> {
    pub fn new(inner: S, rec: Arc<Mutex<Recorded>>) -> Self {
        RecordingScheduler { inner, rec }
    }
}

impl<S: Scheduler> Scheduler for RecordingScheduler<S> {
    fn new_execution(&mut self) -> Option<Schedule> {
        let mut r = self.rec.lock().unwrap();
        r.finish_current();
        if r.executions >= 1 && !r.cur_had_choice {
            // The previous execution never had two runnable tasks: every schedule of this workload
            // is the same execution (and shuttle's PCT asserts on such closures), so stop here.
            r.stopped_no_concurrency = true;
            r.current = Trace::default();
            return None;
        }
        let s = self.inner.new_execution();
        if s.is_some() {
            r.executions += 1;
            r.current = Trace::default();
            r.cur_had_choice = false;
            r.cur_switches = 0;
            r.cur_preemptions = 0;
            r.cur_max_runnable = 0;
        } else {
            r.current = Trace::default();
        }
        s
    }

    fn next_task(&mut self, runnable: &[&Task], current: Option<TaskId>, is_yielding: bool) -> Option<TaskId> {
        let choice = self.inner.next_task(runnable, current, is_yielding);
        let mut r = self.rec.lock().unwrap();
        if let Some(c) = choice {
            let id: usize = c.into();
            r.current.tasks.push(id as u32);
            r.max_tasks = r.max_tasks.max(id as u32 + 1);
            r.cur_max_runnable = r.cur_max_runnable.max(runnable.len() as u32);
            if runnable.len() > 1 {
                r.cur_had_choice = true;
                r.choice_points += 1;
            }
            if let Some(cur) = current {
                if cur != c {
                    r.context_switches += 1;
                    r.cur_switches += 1;
                    if runnable.iter().any(|t| t.id() == cur) && !is_yielding {
                        r.preemptions += 1;
                        r.cur_preemptions += 1;
                    }
                }
            }
        }
        choice
    }

    fn next_u64(&mut self) -> u64 {
        let v = self.inner.next_u64();
        let mut r = self.rec.lock().unwrap();
        let at = r.current.tasks.len() as u32;
        r.current.randoms.push(v);
        r.current.random_at.push(at);
        v
    }
}

/// Default policy of the guided scheduler: keep running the current task while it is runnable and
/// not yielding, otherwise the runnable task with the lowest id (other than a yielding current one
/// if there is an alternative).
fn default_choice(runnable: &[&Task], current: Option<TaskId>, is_yielding: bool) -> TaskId {
    if let Some(cur) = current {
        if !is_yielding && runnable.iter().any(|t| t.id() == cur) {
            return cur;
        }
        if is_yielding {
            if let Some(t) = runnable.iter().map(|t| t.id()).filter(|t| *t != cur).min_by_key(|t| usize::from(*t)) {
                return t;
            }
        }
    }
    runnable.iter().map(|t| t.id()).min_by_key(|t| usize::from(*t)).unwrap()
}

#[derive(Clone, Debug, PartialEq, Eq)]
pub enum GuideMode {
    /// follow `tasks` exactly; a non-runnable choice is a divergence
    Strict,
    /// `overrides[k] = (step, task)`: at that step choose `task` if runnable, else the default
    Sparse,
}

#[derive(Default, Debug)]
pub struct GuideState {
    pub diverged: Option<String>,
    pub steps: usize,
}

pub struct GuidedScheduler {
    mode: GuideMode,
    tasks: Vec<u32>,
    overrides: Vec<(u32, u32)>,
    randoms: Vec<u64>,
    rnd_pos: usize,
    fallback: SplitMix64,
    step: usize,
    started: bool,
    state: Arc<Mutex<GuideState>>,
}

impl GuidedScheduler {
    pub fn strict(trace: &Trace, state: Arc<Mutex<GuideState>>) -> Self {
        GuidedScheduler {
            mode: GuideMode::Strict,
            tasks: trace.tasks.clone(),
            overrides: vec![],
            randoms: trace.randoms.clone(),
            rnd_pos: 0,
            fallback: SplitMix64::new(0x5EED),
            step: 0,
            started: false,
            state,
        }
    }
    pub fn sparse(overrides: Vec<(u32, u32)>, randoms: Vec<u64>, state: Arc<Mutex<GuideState>>) -> Self {
        GuidedScheduler {
            mode: GuideMode::Sparse,
            tasks: vec![],
            overrides,
            randoms,
            rnd_pos: 0,
            fallback: SplitMix64::new(0x5EED),
            step: 0,
            started: false,
            state,
        }
    }
}

impl Scheduler for GuidedScheduler {
    fn new_execution(&mut self) -> Option<Schedule> {
        if self.started {
            None
        } else {
            self.started = true;
            Some(Schedule::new(0))
        }
    }

    fn next_task(&mut self, runnable: &[&Task], current: Option<TaskId>, is_yielding: bool) -> Option<TaskId> {
        let step = self.step;
        self.step += 1;
        self.state.lock().unwrap().steps = self.step;
        match self.mode {
            GuideMode::Strict => {
                if step < self.tasks.len() {
                    let want = TaskId::from(self.tasks[step] as usize);
                    if runnable.iter().any(|t| t.id() == want) {
                        return Some(want);
                    }
                    let mut st = self.state.lock().unwrap();
                    if st.diverged.is_none() {
                        st.diverged = Some(format!(
                            "step {step}: recorded task {} is not runnable (runnable: {:?})",
                            self.tasks[step],
                            runnable.iter().map(|t| usize::from(t.id())).collect::<Vec<_>>()
                        ));
                    }
                } else {
                    let mut st = self.state.lock().unwrap();
                    if st.diverged.is_none() {
                        st.diverged = Some(format!("step {step}: recorded schedule exhausted"));
                    }
                }
                Some(default_choice(runnable, current, is_yielding))
            }
            GuideMode::Sparse => {
                if let Some((_, t)) = self.overrides.iter().find(|(s, _)| *s as usize == step) {
                    let want = TaskId::from(*t as usize);
                    if runnable.iter().any(|x| x.id() == want) {
                        return Some(want);
                    }
                }
                Some(default_choice(runnable, current, is_yielding))
            }
        }
    }

    fn next_u64(&mut self) -> u64 {
        if self.rnd_pos < self.randoms.len() {
            self.rnd_pos += 1;
            self.randoms[self.rnd_pos - 1]
        } else {
            self.fallback.next_u64()
        }
    }
}

/// Convert a full trace into sparse overrides relative to the default policy. This needs the
/// runnable sets, which only an execution provides, so it is computed by a scheduler that follows
/// the trace strictly and notes where the default policy would have chosen differently.
pub struct DiffScheduler {
    tasks: Vec<u32>,
    randoms: Vec<u64>,
    rnd_pos: usize,
    step: usize,
    started: bool,
    pub out: Arc<Mutex<Vec<(u32, u32)>>>,
}

impl DiffScheduler {
    pub fn new(trace: &Trace, out: Arc<Mutex<Vec<(u32, u32)>>>) -> Self {
        DiffScheduler { tasks: trace.tasks.clone(), randoms: trace.randoms.clone(), rnd_pos: 0, step: 0, started: false, out }
    }
}

impl Scheduler for DiffScheduler {
    fn new_execution(&mut self) -> Option<Schedule> {
        if self.started {
            None
        } else {
            self.started = true;
            Some(Schedule::new(0))
        }
    }
    fn next_task(&mut self, runnable: &[&Task], current: Option<TaskId>, is_yielding: bool) -> Option<TaskId> {
        let step = self.step;
        self.step += 1;
        let def = default_choice(runnable, current, is_yielding);
        if step < self.tasks.len() {
            let want = TaskId::from(self.tasks[step] as usize);
            if runnable.iter().any(|t| t.id() == want) {
                if want != def {
                    self.out.lock().unwrap().push((step as u32, self.tasks[step]));
                }
                return Some(want);
            }
        }
        Some(def)
    }
    fn next_u64(&mut self) -> u64 {
        if self.rnd_pos < self.randoms.len() {
            self.rnd_pos += 1;
            self.randoms[self.rnd_pos - 1]
        } else {
            0
        }
    }
}

/// Follows a recorded schedule and, once it is exhausted (or departs from it), always runs the
/// runnable task that has waited longest: a fair continuation under which every busy-wait whose
/// condition is eventually established by another task terminates.
pub struct FairTailScheduler {
    tasks: Vec<u32>,
    randoms: Vec<u64>,
    rnd_pos: usize,
    fallback: SplitMix64,
    step: usize,
    started: bool,
    last_run: Vec<usize>,
    in_tail: bool,
}

impl FairTailScheduler {
    pub fn new(trace: &Trace) -> Self {
        FairTailScheduler {
            tasks: trace.tasks.clone(),
            randoms: trace.randoms.clone(),
            rnd_pos: 0,
            fallback: SplitMix64::new(0xFA18),
            step: 0,
            started: false,
            last_run: vec![],
            in_tail: false,
        }
    }
}

impl Scheduler for FairTailScheduler {
    fn new_execution(&mut self) -> Option<Schedule> {
        if self.started {
            None
        } else {
            self.started = true;
            Some(Schedule::new(0))
        }
    }
    fn next_task(&mut self, runnable: &[&Task], _current: Option<TaskId>, _is_yielding: bool) -> Option<TaskId> {
        let step = self.step;
        self.step += 1;
        let mut choice = None;
        if !self.in_tail && step < self.tasks.len() {
            let want = TaskId::from(self.tasks[step] as usize);
            if runnable.iter().any(|t| t.id() == want) {
                choice = Some(want);
            }
        }
        if choice.is_none() {
            self.in_tail = true;
            let lr = &self.last_run;
            choice = runnable
                .iter()
                .map(|t| t.id())
                .min_by_key(|t| (lr.get(usize::from(*t)).copied().unwrap_or(0), usize::from(*t)));
        }
        if let Some(c) = choice {
            let id: usize = c.into();
            if self.last_run.len() <= id {
                self.last_run.resize(id + 1, 0);
            }
            self.last_run[id] = step + 1;
        }
        choice
    }
    fn next_u64(&mut self) -> u64 {
        if self.rnd_pos < self.randoms.len() {
            self.rnd_pos += 1;
            self.randoms[self.rnd_pos - 1]
        } else {
            self.fallback.next_u64()
        }
    }
}
