//! Workload = everything one simulated run needs besides the schedule, and its swarm generator.
//! A workload is a pure function of (VERIF_SEED, run index, tier).

use crate::prng::SplitMix64;
use chrono::{Datelike, Duration, NaiveDate};
use islamic_prayer_times::{
    AsrShadowRatio, Coordinates, DateRange, Elevation, ExtremeLatitudeMethod, Gmt, Latitude,
    Location, Longitude, Method, Params, Prayer, RoundSeconds,
};
use serde::{Deserialize, Serialize};

pub const METHODS: [&str; 9] = [
    "None", "Egyptian", "Egypt", "Shafi", "Hanafi", "Isna", "Mwl", "UmmAlQurra", "FixedIsha",
];
pub const ROUNDS: [&str; 4] = ["None", "NormalRounding", "SpecialRounding", "AggressiveRounding"];
pub const EXT_KINDS: [&str; 15] = [
    "None",
    "AngleBased",
    "NearestLatitudeAllPrayersAlways",
    "NearestLatitudeFajrIshaAlways",
    "NearestLatitudeFajrIshaInvalid",
    "NearestGoodDayAllPrayersAlways",
    "NearestGoodDayFajrIshaInvalid",
    "SeventhOfNightFajrIshaAlways",
    "SeventhOfNightFajrIshaInvalid",
    "SeventhOfDayFajrIshaAlways",
    "SeventhOfDayFajrIshaInvalid",
    "HalfOfNightFajrIshaAlways",
    "HalfOfNightFajrIshaInvalid",
    "MinutesFromMaghribFajrIshaAlways",
    "MinutesFromMaghribFajrIshaInvalid",
];

#[derive(Serialize, Deserialize, Clone, Debug, PartialEq)]
pub struct SchedSpec {
    /// "random" | "pct" | "urw"
    pub kind: String,
    /// PCT depth (ignored otherwise)
    pub depth: usize,
    pub seed: u64,
    /// number of schedules (executions) of this workload
    pub iterations: usize,
}

#[derive(Serialize, Deserialize, Clone, Debug, PartialEq)]
pub struct Workload {
    /// simulated `available_parallelism()`; `None` = the call returns `Err`
    pub workers: Option<usize>,
    /// range length in days; 0 is generated as end = start - 1
    pub days: u32,
    /// `min_days_for_pll`
    pub thr: usize,
    pub start: NaiveDate,
    pub lat: f64,
    pub lon: f64,
    pub elev: f64,
    pub gmt: f64,
    pub method: String,
    pub round: String,
    pub asr_hanafi: bool,
    pub ext: String,
    pub ext_lat: f64,
    /// minute offset applied to Fajr and Isha (`Params::minutes`)
    pub minute_off: f64,
    pub sched: SchedSpec,
}

impl Workload {
    pub fn simple(workers: usize, days: u32, thr: usize) -> Self {
        Workload {
            workers: Some(workers),
            days,
            thr,
            start: NaiveDate::from_ymd_opt(2000, 1, 1).unwrap(),
            lat: 0.0,
            lon: 0.0,
            elev: 0.0,
            gmt: 0.0,
            method: "Isna".into(),
            round: "SpecialRounding".into(),
            asr_hanafi: false,
            ext: "NearestGoodDayFajrIshaInvalid".into(),
            ext_lat: 48.5,
            minute_off: 0.0,
            sched: SchedSpec { kind: "random".into(), depth: 0, seed: 1, iterations: 100 },
        }
    }

    pub fn method(&self) -> Method {
        match self.method.as_str() {
            "None" => Method::None,
            "Egyptian" => Method::Egyptian,
            "Egypt" => Method::Egypt,
            "Shafi" => Method::Shafi,
            "Hanafi" => Method::Hanafi,
            "Isna" => Method::Isna,
            "Mwl" => Method::Mwl,
            "UmmAlQurra" => Method::UmmAlQurra,
            "FixedIsha" => Method::FixedIsha,
            m => panic!("harness: unknown method {m}"),
        }
    }

    pub fn params(&self) -> Params {
        let mut p = Params::new(self.method());
        p.round_seconds = match self.round.as_str() {
            "None" => RoundSeconds::None,
            "NormalRounding" => RoundSeconds::NormalRounding,
            "SpecialRounding" => RoundSeconds::SpecialRounding,
            "AggressiveRounding" => RoundSeconds::AggressiveRounding,
            r => panic!("harness: unknown rounding {r}"),
        };
        if self.asr_hanafi {
            p.asr_shadow_ratio = AsrShadowRatio::Hanafi;
        }
        let l = Latitude::try_from(self.ext_lat).expect("harness: ext_lat");
        use ExtremeLatitudeMethod as E;
        p.extreme_latitude_method = match self.ext.as_str() {
            "None" => E::None,
            "AngleBased" => E::AngleBased,
            "NearestLatitudeAllPrayersAlways" => E::NearestLatitudeAllPrayersAlways(l),
            "NearestLatitudeFajrIshaAlways" => E::NearestLatitudeFajrIshaAlways(l),
            "NearestLatitudeFajrIshaInvalid" => E::NearestLatitudeFajrIshaInvalid(l),
            "NearestGoodDayAllPrayersAlways" => E::NearestGoodDayAllPrayersAlways,
            "NearestGoodDayFajrIshaInvalid" => E::NearestGoodDayFajrIshaInvalid,
            "SeventhOfNightFajrIshaAlways" => E::SeventhOfNightFajrIshaAlways,
            "SeventhOfNightFajrIshaInvalid" => E::SeventhOfNightFajrIshaInvalid,
            "SeventhOfDayFajrIshaAlways" => E::SeventhOfDayFajrIshaAlways,
            "SeventhOfDayFajrIshaInvalid" => E::SeventhOfDayFajrIshaInvalid,
            "HalfOfNightFajrIshaAlways" => E::HalfOfNightFajrIshaAlways,
            "HalfOfNightFajrIshaInvalid" => E::HalfOfNightFajrIshaInvalid,
            "MinutesFromMaghribFajrIshaAlways" => E::MinutesFromMaghribFajrIshaAlways,
            "MinutesFromMaghribFajrIshaInvalid" => E::MinutesFromMaghribFajrIshaInvalid,
            e => panic!("harness: unknown extreme latitude method {e}"),
        };
        if self.minute_off != 0.0 {
            p.minutes.insert(Prayer::Fajr, self.minute_off);
            p.minutes.insert(Prayer::Isha, -self.minute_off);
        }
        p
    }

    pub fn location(&self) -> Location {
        let coords = Coordinates::new(
            Latitude::try_from(self.lat).expect("harness: lat"),
            Longitude::try_from(self.lon).expect("harness: lon"),
            Elevation::try_from(self.elev).expect("harness: elev"),
        );
        Location { coords, gmt: Gmt::try_from(self.gmt).expect("harness: gmt") }
    }

    pub fn range(&self) -> DateRange {
        let end = self.start + Duration::days(self.days as i64 - 1);
        DateRange::from(self.start..=end)
    }

    /// the same workload without the parts the simulated code cannot see (used as the
    /// "workload shape" of the interleaving measure)
    pub fn shape(&self) -> (usize, u32, usize) {
        (self.workers.unwrap_or(0), self.days, self.thr)
    }
}

fn gen_workers(r: &mut SplitMix64) -> Option<usize> {
    if r.chance(5) {
        return None;
    }
    if r.chance(55) {
        Some(*r.pick(&[1usize, 2, 2, 3, 3, 4, 4, 5, 8, 16, 63, 64]))
    } else {
        Some(r.range(1, 64) as usize)
    }
}

fn gen_days(r: &mut SplitMix64, w: usize, big: bool) -> u32 {
    let w = w.max(1) as i64;
    if big {
        return r.range(401, 6000) as u32;
    }
    let c = r.range(0, 99);
    let d = if c < 45 {
        let k = r.range(1, 6);
        *r.pick(&[0, 1, 2, 3, w - 1, w, w + 1, w / 2, w / 2 + 1, 2 * w - 1, 2 * w, 2 * w + 1, k * w, k * w - 1, k * w + 1])
    } else if c < 60 {
        *r.pick(&[5i64, 7, 11, 13, 17, 29, 31, 37, 59, 61, 97, 127, 199, 211, 365, 366, 367])
    } else if c < 85 {
        r.range(0, 40)
    } else {
        r.range(0, 400)
    };
    d.clamp(0, 6000) as u32
}

fn gen_thr(r: &mut SplitMix64, days: u32, w: usize) -> usize {
    let q = days as i64 / w.max(1) as i64;
    let t = if r.chance(70) {
        *r.pick(&[0, 0, 1, 1, q - 1, q, q, q + 1, 365])
    } else {
        r.range(0, 400)
    };
    t.clamp(0, 400) as usize
}

fn gen_start(r: &mut SplitMix64) -> NaiveDate {
    let year = r.range(1600, 2399) as i32;
    if r.chance(40) {
        // near a month / year / leap boundary so that the range crosses it
        let (m, d) = *r.pick(&[(12u32, 31u32), (12, 30), (12, 25), (2, 27), (2, 28), (1, 1), (3, 1), (6, 30), (10, 31)]);
        let y = if r.chance(50) { year - year % 4 } else { year };
        NaiveDate::from_ymd_opt(y.clamp(1600, 2399), m, d).unwrap()
    } else {
        let base = NaiveDate::from_ymd_opt(year, 1, 1).unwrap();
        base + Duration::days(r.range(0, 364))
    }
}

/// `tier`: 0 = quick, 1 = thorough (allows the 401..6000-day ranges more often and more schedules)
pub fn generate(seed: u64, i: u64, tier: u32) -> Workload {
    let mut r = SplitMix64::for_run(seed, i);
    let workers = gen_workers(&mut r);
    let w = workers.unwrap_or(1);
    let big = r.chance(if tier == 0 { 1 } else { 3 });
    let mut days = gen_days(&mut r, w, big);
    let thr = gen_thr(&mut r, days, w);
    let start = gen_start(&mut r);
    let lat = if r.chance(70) { r.f64_in(-45.0, 45.0, 4) } else { r.f64_in(-60.0, 60.0, 4) };
    let lat = if r.chance(5) { *r.pick(&[0.0, 60.0, -60.0, 23.44, -23.44, 48.5]) } else { lat };
    let lon = if r.chance(5) { *r.pick(&[0.0, 180.0, -180.0]) } else { r.f64_in(-180.0, 180.0, 4) };
    let elev = if r.chance(60) { 0.0 } else { r.f64_in(-420.0, 8848.0, 1) };
    let gmt = if r.chance(80) { (lon / 15.0).round().clamp(-12.0, 12.0) } else { r.range(-24, 24) as f64 / 2.0 };
    let method = r.pick(&METHODS).to_string();
    let round = r.pick(&ROUNDS).to_string();
    let asr_hanafi = r.chance(30);
    let ext = if r.chance(40) { "NearestGoodDayFajrIshaInvalid".to_string() } else { r.pick(&EXT_KINDS).to_string() };
    let ext_lat = if r.chance(50) { 48.5 } else { r.f64_in(-60.0, 60.0, 2) };
    let minute_off = if r.chance(85) { 0.0 } else { r.range(-30, 30) as f64 };
    // keep the nearest-good-day search (up to 2 x day-of-year day computations per day) affordable
    if lat.abs() > 48.0 && ext.starts_with("NearestGoodDay") && days > 40 {
        days = 1 + days % 40;
    }
    let kind_c = r.range(0, 99);
    let (kind, depth) = if kind_c < 40 {
        ("random", 0)
    } else if kind_c < 85 {
        ("pct", r.range(1, 6) as usize)
    } else {
        ("urw", 0)
    };
    let cost = days as u64 * 1; // day computations per schedule
    let max_iter: i64 = if cost > 1000 {
        if tier == 0 { 1 } else { 3 }
    } else if cost > 200 {
        if tier == 0 { 3 } else { 8 }
    } else if cost > 40 {
        if tier == 0 { 10 } else { 25 }
    } else {
        if tier == 0 { 30 } else { 50 }
    };
    let iterations = r.range(1, max_iter) as usize;
    let sched = SchedSpec { kind: kind.into(), depth, seed: r.next_u64(), iterations };
    let _ = start.year();
    Workload {
        workers, days, thr, start, lat, lon, elev, gmt, method, round, asr_hanafi, ext, ext_lat,
        minute_off, sched,
    }
}
