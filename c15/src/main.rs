//! C15 simulator: `prayer_times_dt_rng_block` (real code, hooked build) under shuttle-controlled
//! schedules vs the sequential API. See /verif/DESIGN.md §2.
//!
//!   c15 run      --tier quick|thorough [--seed N] [--jobs N] [--runs N] --evidence FILE --replays DIR --known FILE
//!   c15 worker   (internal) one shard of a batch
//!   c15 probe    (internal) run one case file under a given mode, print the outcome as JSON
//!   c15 replay   FILE       re-execute a replay file; exit 1 + VIOLATION line if it reproduces
//!   c15 selftest [--runs N] determinism: same (seed, run) twice, different job counts, diff digests
//!   c15 show     --seed N --run I --tier T    print the generated workload

mod driver;
mod prng;
mod sched;
mod sim;
mod workload;

use serde::{Deserialize, Serialize};
use std::collections::HashSet;
use std::io::Write;

#[derive(Serialize, Deserialize, Clone, Debug)]
pub struct CaseFile {
    pub property: String,
    pub class: String,
    pub seed: u64,
    pub run: u64,
    pub tier: u32,
    pub workload: workload::Workload,
    /// full recorded execution (task ids, random values); empty for class no-progress/abort
    pub trace: sched::Trace,
    /// sparse form of the same schedule: (step, task) where it departs from "keep running the
    /// current task, else lowest id"
    pub preemptions: Vec<(u32, u32)>,
    pub message: String,
    #[serde(default)]
    pub minimised: bool,
    #[serde(default)]
    pub original_workload: Option<workload::Workload>,
    #[serde(default)]
    pub original_steps: usize,
}

pub fn arg_val(args: &[String], name: &str) -> Option<String> {
    args.iter().position(|a| a == name).and_then(|p| args.get(p + 1).cloned())
}
pub fn arg_u64(args: &[String], name: &str, default: u64) -> u64 {
    arg_val(args, name).map(|v| v.parse().unwrap_or_else(|_| die(&format!("bad value for {name}")))).unwrap_or(default)
}
pub fn die(msg: &str) -> ! {
    eprintln!("c15: harness error: {msg}");
    std::process::exit(2)
}
pub fn tier_num(t: &str) -> u32 {
    match t {
        "quick" => 0,
        "thorough" => 1,
        _ => die("tier must be quick or thorough"),
    }
}

/// Lines written by a worker (one JSON object per line).
#[derive(Serialize, Deserialize, Clone, Debug)]
pub struct RunLine {
    pub i: u64,
    pub workload: workload::Workload,
    pub outcome: sim::Outcome,
    pub wall_us: u64,
}

fn worker(args: &[String]) -> i32 {
    let seed = arg_u64(args, "--seed", 1);
    let tier = arg_u64(args, "--tier", 0) as u32;
    let total = arg_u64(args, "--total", 0);
    let stride = arg_u64(args, "--stride", 1);
    let offset = arg_u64(args, "--offset", 0);
    let first = arg_u64(args, "--first", 0);
    let out_dir = arg_val(args, "--out").unwrap_or_else(|| die("--out"));
    let mut lines = std::io::BufWriter::new(std::fs::File::create(format!("{out_dir}/w{offset}.jsonl")).unwrap());
    let progress_path = format!("{out_dir}/w{offset}.progress");
    let mut hashes: HashSet<u64> = HashSet::new();
    let mut i = first + offset;
    let mut code = 0;
    while i < first + total {
        std::fs::write(&progress_path, format!("{i}\n")).ok();
        let w = workload::generate(seed, i, tier);
        let t0 = std::time::Instant::now();
        let outcome = sim::run_workload_collect(&w, &mut hashes);
        let wall_us = t0.elapsed().as_micros() as u64;
        let failed = outcome.class != "ok" && outcome.class != "skipped-reference-panicked";
        let line = RunLine { i, workload: w, outcome, wall_us };
        serde_json::to_writer(&mut lines, &line).unwrap();
        lines.write_all(b"\n").unwrap();
        if failed {
            lines.flush().unwrap();
            std::fs::write(format!("{out_dir}/fail-{i}.json"), serde_json::to_vec_pretty(&line).unwrap()).unwrap();
            code = 3;
            break;
        }
        i += stride;
    }
    lines.flush().unwrap();
    let mut hb = Vec::with_capacity(hashes.len() * 8);
    for h in &hashes {
        hb.extend_from_slice(&h.to_le_bytes());
    }
    std::fs::write(format!("{out_dir}/w{offset}.hashes"), hb).unwrap();
    std::fs::write(&progress_path, "done\n").ok();
    code
}

/// probe: run the workload of a case file in a given mode and print the outcome.
fn probe(args: &[String]) -> i32 {
    let case_path = arg_val(args, "--case").unwrap_or_else(|| die("--case"));
    let case: CaseFile = serde_json::from_slice(&std::fs::read(&case_path).unwrap_or_else(|_| die("cannot read case"))).unwrap_or_else(|e| die(&format!("bad case file: {e}")));
    let mode = arg_val(args, "--mode").unwrap_or_else(|| "spec".into());
    let m = match mode.as_str() {
        "spec" => sim::Mode::Spec,
        "search" => sim::Mode::SpecWith { seed: arg_u64(args, "--sseed", 1), iterations: arg_u64(args, "--budget", 2000) as usize },
        "strict" => sim::Mode::Strict(case.trace.clone()),
        "sparse" => sim::Mode::Sparse { overrides: case.preemptions.clone(), randoms: case.trace.randoms.clone() },
        "diff" => sim::Mode::Diff(case.trace.clone()),
        "ref" => sim::Mode::Spec,
        _ => die("bad --mode"),
    };
    if mode == "ref" {
        // does the sequential reference itself terminate on this workload?
        let ok = sim::reference(&case.workload).is_some();
        let out = arg_val(args, "--out").unwrap_or_else(|| die("--out"));
        let mut o = sim::run_workload(&workload::Workload::simple(1, 0, 0), sim::Mode::Spec);
        o.class = if ok { "ok".into() } else { "skipped-reference-panicked".into() };
        std::fs::write(out, serde_json::to_vec(&o).unwrap()).unwrap();
        return 0;
    }
    let o = sim::run_workload(&case.workload, m);
    let out = arg_val(args, "--out").unwrap_or_else(|| die("--out"));
    std::fs::write(out, serde_json::to_vec(&o).unwrap()).unwrap();
    0
}

fn show(args: &[String]) -> i32 {
    let seed = arg_u64(args, "--seed", 1);
    let run = arg_u64(args, "--run", 0);
    let tier = tier_num(&arg_val(args, "--tier").unwrap_or_else(|| "quick".into()));
    let w = workload::generate(seed, run, tier);
    println!("{}", serde_json::to_string_pretty(&w).unwrap());
    0
}

fn main() {
    let args: Vec<String> = std::env::args().collect();
    if args.len() < 2 {
        die("usage: c15 run|worker|probe|replay|selftest|show ...");
    }
    // shuttle honours this variable and would override every scheduler seed
    std::env::remove_var("SHUTTLE_RANDOM_SEED");
    let code = match args[1].as_str() {
        "worker" => worker(&args),
        "probe" => probe(&args),
        "show" => show(&args),
        "run" => driver::run(&args),
        "replay" => driver::replay(&args),
        "selftest" => driver::selftest(&args),
        _ => die("unknown subcommand"),
    };
    std::process::exit(code)
}
