//! One simulated run: the real `prayer_times_dt_rng_block` under a controlled scheduler, checked
//! against the sequential API.

use crate::prng::fnv1a;
use crate::sched::{DiffScheduler, FairTailScheduler, GuideState, GuidedScheduler, Recorded, RecordingScheduler, Trace};
use crate::workload::Workload;
use chrono::NaiveDate;
use ipt_verif_rt::Probes;
use islamic_prayer_times::{prayer_times_dt_rng, prayer_times_dt_rng_block, Prayer, PrayerTime};
use serde::{Deserialize, Serialize};
use shuttle::scheduler::{PctScheduler, RandomScheduler, Scheduler, UrwRandomScheduler};
use shuttle::{Config, FailurePersistence, MaxSteps, Runner};
use std::collections::BTreeMap;
use std::panic::{catch_unwind, AssertUnwindSafe};
use std::sync::{Arc, Mutex};

pub type Times = BTreeMap<NaiveDate, BTreeMap<Prayer, Result<PrayerTime, ()>>>;

#[derive(Serialize, Deserialize, Clone, Debug, Default, PartialEq)]
pub struct ProbeAgg {
    pub executions: u64,
    pub parallel_execs: u64,
    pub sequential_execs: u64,
    pub avail_calls: u64,
    pub sends: u64,
    pub send_errs: u64,
    pub recvs_ok: u64,
    pub recvs_disc: u64,
    pub recv_on_empty: u64,
    pub try_recv_empty: u64,
    pub timer_fires: u64,
    pub timer_polls: u64,
    pub sender_clones: u64,
    pub execs_recv_on_empty: u64,
    pub execs_last_sender_drop_while_recv_waiting: u64,
    pub execs_recv_before_all_spawned: u64,
    pub sleeps: u64,
    pub yields: u64,
    pub max_partitions: u64,
    #[serde(default)]
    pub clock_reads: u64,
    #[serde(default)]
    pub clock_ticks: u64,
    /// executions that ran into the step bound under an *unfair* schedule (a task that busy-waits
    /// kept being chosen) and completed correctly once the same prefix was continued fairly
    #[serde(default)]
    pub step_limits_resolved_by_fair_continuation: u64,
}

impl ProbeAgg {
    fn add(&mut self, p: &Probes) {
        self.executions += 1;
        if p.channels > 0 {
            self.parallel_execs += 1;
        } else {
            self.sequential_execs += 1;
        }
        self.avail_calls += p.avail_calls as u64;
        self.sends += p.sends as u64;
        self.send_errs += p.send_errs as u64;
        self.recvs_ok += p.recvs_ok as u64;
        self.recvs_disc += p.recvs_disc as u64;
        self.recv_on_empty += p.recv_on_empty as u64;
        self.try_recv_empty += p.try_recv_empty as u64;
        self.timer_fires += p.timer_fires as u64;
        self.timer_polls += p.timer_polls as u64;
        self.sender_clones += p.sender_clones as u64;
        self.sleeps += p.sleeps as u64;
        self.yields += p.yields as u64;
        self.clock_reads += p.clock_reads as u64;
        self.clock_ticks += p.clock_ticks as u64;
        if p.recv_on_empty > 0 {
            self.execs_recv_on_empty += 1;
        }
        if p.last_sender_drop_while_recv_waiting > 0 {
            self.execs_last_sender_drop_while_recv_waiting += 1;
        }
        if p.recvs_ok > 0 && p.clones_at_first_recv < p.sender_clones {
            self.execs_recv_before_all_spawned += 1;
        }
        self.max_partitions = self.max_partitions.max(p.sender_clones as u64);
    }
    pub fn merge(&mut self, o: &ProbeAgg) {
        self.executions += o.executions;
        self.parallel_execs += o.parallel_execs;
        self.sequential_execs += o.sequential_execs;
        self.avail_calls += o.avail_calls;
        self.sends += o.sends;
        self.send_errs += o.send_errs;
        self.recvs_ok += o.recvs_ok;
        self.recvs_disc += o.recvs_disc;
        self.recv_on_empty += o.recv_on_empty;
        self.try_recv_empty += o.try_recv_empty;
        self.timer_fires += o.timer_fires;
        self.timer_polls += o.timer_polls;
        self.sender_clones += o.sender_clones;
        self.execs_recv_on_empty += o.execs_recv_on_empty;
        self.execs_last_sender_drop_while_recv_waiting += o.execs_last_sender_drop_while_recv_waiting;
        self.execs_recv_before_all_spawned += o.execs_recv_before_all_spawned;
        self.sleeps += o.sleeps;
        self.yields += o.yields;
        self.clock_reads += o.clock_reads;
        self.clock_ticks += o.clock_ticks;
        self.step_limits_resolved_by_fair_continuation += o.step_limits_resolved_by_fair_continuation;
        self.max_partitions = self.max_partitions.max(o.max_partitions);
    }
}

#[derive(Serialize, Deserialize, Clone, Debug, PartialEq)]
pub struct Outcome {
    /// "ok" | "mismatch" | "deadlock" | "step-limit" | "panic" | "skipped-reference-panicked"
    pub class: String,
    pub message: String,
    pub executions: u64,
    pub steps_total: u64,
    pub max_steps_seen: u64,
    pub context_switches: u64,
    pub preemptions: u64,
    pub choice_points: u64,
    pub max_tasks: u32,
    pub distinct_interleavings: u64,
    pub probes: ProbeAgg,
    pub failing_trace: Option<Trace>,
    /// switches / pre-emptions of the failing execution
    pub failing_switches: u64,
    pub failing_preemptions: u64,
    pub diverged: Option<String>,
    pub overrides: Vec<(u32, u32)>,
    pub digest: String,
    pub stopped_no_concurrency: bool,
    pub max_steps_bound: usize,
}

pub enum Mode {
    /// the workload's own scheduler spec
    Spec,
    /// the workload's scheduler kind but another seed / budget
    SpecWith { seed: u64, iterations: usize },
    Strict(Trace),
    Sparse { overrides: Vec<(u32, u32)>, randoms: Vec<u64> },
    /// follow the trace and report where it departs from the default policy
    Diff(Trace),
    /// follow the trace, then continue with a fair (least-recently-run) policy: decides whether a
    /// step-limit hit is a livelock of the code or an artefact of an unfair schedule
    FairTail(Trace),
}

fn describe_mismatch(got: &Times, exp: &Times) -> String {
    let missing: Vec<_> = exp.keys().filter(|k| !got.contains_key(k)).collect();
    let extra: Vec<_> = got.keys().filter(|k| !exp.contains_key(k)).collect();
    let differing: Vec<_> = exp.iter().filter(|(k, v)| got.get(k).map(|g| g != *v).unwrap_or(false)).map(|(k, _)| k).collect();
    format!(
        "parallel result differs from sequential: expected {} dates, got {}; missing {} (first {:?}), extra {} (first {:?}), differing values {} (first {:?})",
        exp.len(), got.len(), missing.len(), missing.first(), extra.len(), extra.first(), differing.len(), differing.first()
    )
}

pub fn classify(msg: &str) -> &'static str {
    if msg.contains("C15-MISMATCH") {
        "mismatch"
    } else if msg.starts_with("deadlock!") {
        "deadlock"
    } else if msg.starts_with("exceeded max_steps bound") {
        "step-limit"
    } else {
        "panic"
    }
}

fn payload_to_string(p: Box<dyn std::any::Any + Send>) -> String {
    if let Some(s) = p.downcast_ref::<&str>() {
        s.to_string()
    } else if let Some(s) = p.downcast_ref::<String>() {
        s.clone()
    } else {
        "<non-string panic payload>".to_string()
    }
}

pub fn max_steps_for(w: &Workload) -> usize {
    64 * (w.workers.unwrap_or(1) + 4) + 10_000
}

/// extra steps granted to the fair continuation of a schedule that hit the step bound
pub const FAIR_TAIL_STEPS: usize = 400_000;

fn config(w: &Workload, mode: &Mode) -> Config {
    let mut cfg = Config::new();
    cfg.stack_size = 1 << 20;
    cfg.failure_persistence = FailurePersistence::None;
    let bound = max_steps_for(w);
    cfg.max_steps = MaxSteps::FailAfter(match mode {
        Mode::FairTail(t) => t.tasks.len() + FAIR_TAIL_STEPS,
        // a failure found in a fair continuation is recorded with its full (longer) schedule
        Mode::Strict(t) | Mode::Diff(t) if t.tasks.len() > bound => t.tasks.len() + 16,
        _ => bound,
    });
    cfg.silence_warnings = true;
    cfg
}

/// Sequential reference, guarded: a panic of the *sequential* API is another property's concern.
pub fn reference(w: &Workload) -> Option<Times> {
    let params = w.params();
    let loc = w.location();
    let range = w.range();
    catch_unwind(AssertUnwindSafe(|| prayer_times_dt_rng(&params, loc, &range))).ok()
}

pub fn run_workload(w: &Workload, mode: Mode) -> Outcome {
    let wl_json = serde_json::to_string(w).unwrap();
    let mut out = Outcome {
        class: "ok".into(),
        message: String::new(),
        executions: 0,
        steps_total: 0,
        max_steps_seen: 0,
        context_switches: 0,
        preemptions: 0,
        choice_points: 0,
        max_tasks: 0,
        distinct_interleavings: 0,
        probes: ProbeAgg::default(),
        failing_trace: None,
        failing_switches: 0,
        failing_preemptions: 0,
        diverged: None,
        overrides: vec![],
        digest: String::new(),
        stopped_no_concurrency: false,
        max_steps_bound: max_steps_for(w),
    };
    let expected = match reference(w) {
        Some(e) => Arc::new(e),
        None => {
            out.class = "skipped-reference-panicked".into();
            out.digest = format!("{:016x}", fnv1a(wl_json.as_bytes()));
            return out;
        }
    };
    let expected_hash = fnv1a(serde_json::to_string(&*expected).unwrap().as_bytes());

    let rec = Arc::new(Mutex::new(Recorded::default()));
    {
        let (a, b, c) = w.shape();
        rec.lock().unwrap().shape_hash = fnv1a(format!("{a}/{b}/{c}").as_bytes());
    }
    let agg = Arc::new(Mutex::new(ProbeAgg::default()));
    let guide = Arc::new(Mutex::new(GuideState::default()));
    let diff_out = Arc::new(Mutex::new(Vec::new()));

    let params = w.params();
    let loc = w.location();
    let range = w.range();
    let thr = w.thr;
    let workers = w.workers;
    let agg2 = agg.clone();
    let exp2 = expected.clone();
    let scenario = move || {
        ipt_verif_rt::sim_reset_probes();
        ipt_verif_rt::sim_set_available_parallelism(workers);
        // ---- real code under simulation ----
        let got = prayer_times_dt_rng_block(&params, loc, &range, thr);
        // ------------------------------------
        let p = ipt_verif_rt::sim_probes();
        agg2.lock().unwrap().add(&p);
        if got != *exp2 {
            panic!("C15-MISMATCH {}", describe_mismatch(&got, &exp2));
        }
    };

    let boxed: Box<dyn Scheduler + Send> = match &mode {
        Mode::Spec | Mode::SpecWith { .. } => {
            let (seed, iters) = match &mode {
                Mode::SpecWith { seed, iterations } => (*seed, *iterations),
                _ => (w.sched.seed, w.sched.iterations),
            };
            match w.sched.kind.as_str() {
                "pct" => Box::new(PctScheduler::new_from_seed(seed, w.sched.depth.max(1), iters)),
                "urw" => Box::new(UrwRandomScheduler::new_from_seed(seed, iters)),
                _ => Box::new(RandomScheduler::new_from_seed(seed, iters)),
            }
        }
        Mode::Strict(t) => Box::new(GuidedScheduler::strict(t, guide.clone())),
        Mode::Sparse { overrides, randoms } => Box::new(GuidedScheduler::sparse(overrides.clone(), randoms.clone(), guide.clone())),
        Mode::Diff(t) => Box::new(DiffScheduler::new(t, diff_out.clone())),
        Mode::FairTail(t) => Box::new(FairTailScheduler::new(t)),
    };
    let sched = RecordingScheduler::new(boxed, rec.clone());
    let runner = Runner::new(sched, config(w, &mode));
    let res = catch_unwind(AssertUnwindSafe(|| runner.run(scenario)));

    let mut r = rec.lock().unwrap();
    if let Err(p) = res {
        let msg = payload_to_string(p);
        out.class = classify(&msg).to_string();
        out.message = msg;
        out.failing_trace = Some(r.current.clone());
        out.failing_switches = r.cur_switches;
        out.failing_preemptions = r.cur_preemptions;
        // account for the failing execution as well
        let n = r.current.tasks.len() as u64;
        r.steps_total += n;
        r.max_steps_seen = r.max_steps_seen.max(n);
        r.current = Trace::default();
    }
    // A step-limit hit says "this schedule did not finish within the bound". Schedulers such as PCT
    // are deliberately unfair: a task that busy-waits (spins on an atomic, polls with try_recv) can
    // be chosen for ever, which no operating system does. The property quantifies over schedules a
    // real scheduler can produce, so the same prefix is continued fairly: if the execution then
    // completes with the right result it was an artefact and is only counted; if it still does not
    // finish it is a livelock and is reported; any other failure of the continuation is reported
    // with the continuation's own schedule.
    let mut resolved = 0u64;
    if out.class == "step-limit" && !matches!(mode, Mode::FairTail(_)) {
        let prefix = out.failing_trace.clone().unwrap_or_default();
        drop(r);
        let o2 = run_workload(w, Mode::FairTail(prefix));
        r = rec.lock().unwrap();
        match o2.class.as_str() {
            "ok" => {
                out.class = "ok".into();
                out.message = String::new();
                out.failing_trace = None;
                out.failing_switches = 0;
                out.failing_preemptions = 0;
                resolved = 1;
            }
            "step-limit" => {
                out.message = format!("{} [still not finished after {} further steps of a fair (least-recently-run) continuation: livelock]", out.message, FAIR_TAIL_STEPS);
            }
            _ => {
                out.class = o2.class.clone();
                out.message = format!("{} [in the fair continuation of a schedule that had hit the step bound]", o2.message);
                out.failing_trace = o2.failing_trace.clone();
                out.failing_switches = o2.failing_switches;
                out.failing_preemptions = o2.failing_preemptions;
            }
        }
    }
    out.executions = r.executions;
    out.steps_total = r.steps_total;
    out.max_steps_seen = r.max_steps_seen;
    out.context_switches = r.context_switches;
    out.preemptions = r.preemptions;
    out.choice_points = r.choice_points;
    out.max_tasks = r.max_tasks;
    out.distinct_interleavings = r.interleavings.len() as u64;
    out.stopped_no_concurrency = r.stopped_no_concurrency;
    out.probes = agg.lock().unwrap().clone();
    out.probes.step_limits_resolved_by_fair_continuation += resolved;
    out.diverged = guide.lock().unwrap().diverged.clone();
    out.overrides = diff_out.lock().unwrap().clone();
    let mut il: Vec<u64> = r.interleavings.iter().copied().collect();
    il.sort_unstable();
    COLLECT.with(|c| {
        if let Some(v) = c.borrow_mut().as_mut() {
            v.extend(il.iter().copied());
        }
    });
    let mut bytes = wl_json.into_bytes();
    bytes.extend_from_slice(&expected_hash.to_le_bytes());
    for h in &il {
        bytes.extend_from_slice(&h.to_le_bytes());
    }
    bytes.extend_from_slice(&out.executions.to_le_bytes());
    bytes.extend_from_slice(&out.steps_total.to_le_bytes());
    bytes.extend_from_slice(&out.context_switches.to_le_bytes());
    bytes.extend_from_slice(out.class.as_bytes());
    out.digest = format!("{:016x}", fnv1a(&bytes));
    out
}

/// interleaving hashes of the last `run_workload` are not returned (kept small); the worker that
/// needs them for the global distinct count calls this variant.
pub fn run_workload_collect(w: &Workload, sink: &mut std::collections::HashSet<u64>) -> Outcome {
    // identical to run_workload(Spec) but exposes the set: re-implemented through a thread-local
    // to avoid duplicating the body
    COLLECT.with(|c| *c.borrow_mut() = Some(Vec::new()));
    let o = run_workload(w, Mode::Spec);
    if let Some(v) = COLLECT.with(|c| c.borrow_mut().take()) {
        sink.extend(v);
    }
    o
}

thread_local! {
    pub static COLLECT: std::cell::RefCell<Option<Vec<u64>>> = const { std::cell::RefCell::new(None) };
}
