//! Batch driver: shards runs over worker processes (assignment by run index, never by which
//! process is free), watches for stalls and aborts, aggregates probes into the evidence file,
//! minimises the first failure into a replay file.

use crate::sched::Trace;
use crate::sim::{Outcome, ProbeAgg};
use crate::workload::{self, Workload};
use crate::{arg_u64, arg_val, die, tier_num, CaseFile, RunLine};
use serde_json::json;
use std::collections::{BTreeMap, HashMap, HashSet};
use std::path::{Path, PathBuf};
use std::process::{Child, Command, Stdio};
use std::time::{Duration, Instant};

const DEFAULT_SEED: u64 = 20261002;
/// virtual-memory cap per simulator process (KiB): a runaway allocation in the code under test
/// aborts that process instead of exhausting the machine
const MEM_LIMIT_KIB: u64 = 6 * 1024 * 1024;
const STALL_SECS: u64 = 120;

fn scratch_dir(tag: &str) -> PathBuf {
    let base = std::env::var("TMPDIR").unwrap_or_else(|_| "/tmp".into());
    let d = PathBuf::from(base).join(format!("ipt-c15-{tag}-{}", std::process::id()));
    let _ = std::fs::remove_dir_all(&d);
    std::fs::create_dir_all(&d).unwrap_or_else(|e| die(&format!("cannot create scratch dir: {e}")));
    d
}

fn spawn_limited(args: &[String], stderr_to: &Path) -> Child {
    let exe = std::env::current_exe().unwrap();
    let err = std::fs::File::create(stderr_to).unwrap();
    Command::new("sh")
        .arg("-c")
        .arg(format!("ulimit -v {MEM_LIMIT_KIB}; exec \"$0\" \"$@\""))
        .arg(exe)
        .args(args)
        .env_remove("SHUTTLE_RANDOM_SEED")
        .stdin(Stdio::null())
        .stdout(Stdio::null())
        .stderr(err)
        .spawn()
        .unwrap_or_else(|e| die(&format!("cannot spawn worker: {e}")))
}

#[derive(Debug)]
enum ProbeResult {
    Done(Outcome),
    /// no heartbeat within the timeout
    Timeout,
    /// died from a signal or an unexpected exit code (allocation failure aborts)
    Crashed(String),
}

fn probe(dir: &Path, case: &CaseFile, mode: &str, extra: &[String], timeout: Duration) -> ProbeResult {
    let case_path = dir.join("probe-case.json");
    let out_path = dir.join("probe-out.json");
    let _ = std::fs::remove_file(&out_path);
    std::fs::write(&case_path, serde_json::to_vec(case).unwrap()).unwrap();
    let mut args = vec![
        "probe".to_string(),
        "--case".into(),
        case_path.to_string_lossy().into_owned(),
        "--mode".into(),
        mode.into(),
        "--out".into(),
        out_path.to_string_lossy().into_owned(),
    ];
    args.extend_from_slice(extra);
    let mut child = spawn_limited(&args, &dir.join("probe.stderr"));
    let t0 = Instant::now();
    loop {
        match child.try_wait().unwrap() {
            Some(st) => {
                if st.success() {
                    return match std::fs::read(&out_path).ok().and_then(|b| serde_json::from_slice::<Outcome>(&b).ok()) {
                        Some(o) => ProbeResult::Done(o),
                        None => ProbeResult::Crashed("probe wrote no outcome".into()),
                    };
                }
                return ProbeResult::Crashed(format!("{st}"));
            }
            None => {
                if t0.elapsed() > timeout {
                    let _ = child.kill();
                    let _ = child.wait();
                    return ProbeResult::Timeout;
                }
                std::thread::sleep(Duration::from_millis(2));
            }
        }
    }
}

/// class of a probe result, in the vocabulary of the replay files
fn probe_class(r: &ProbeResult) -> String {
    match r {
        ProbeResult::Done(o) => o.class.clone(),
        ProbeResult::Timeout => "no-progress".into(),
        ProbeResult::Crashed(_) => "abort".into(),
    }
}

struct Batch {
    lines: Vec<RunLine>,
    hashes: HashSet<u64>,
    /// (run index, class, message) for stalls / aborts detected by the watchdog
    watchdog: Vec<(u64, String, String)>,
}

fn run_batch(dir: &Path, seed: u64, tier: u32, first: u64, total: u64, jobs: u64, keep_hashes: bool) -> Batch {
    let _ = std::fs::remove_dir_all(dir);
    std::fs::create_dir_all(dir).unwrap();
    let mut children: Vec<(u64, Child, Option<(String, Instant)>)> = Vec::new();
    for j in 0..jobs {
        let args: Vec<String> = [
            "worker", "--seed", &seed.to_string(), "--tier", &tier.to_string(), "--total", &total.to_string(), "--stride",
            &jobs.to_string(), "--offset", &j.to_string(), "--first", &first.to_string(), "--out", &dir.to_string_lossy(),
        ]
        .iter()
        .map(|s| s.to_string())
        .collect();
        children.push((j, spawn_limited(&args, &dir.join(format!("w{j}.stderr"))), None));
    }
    let mut watchdog = Vec::new();
    let mut live = children.len();
    let mut done = vec![false; children.len()];
    while live > 0 {
        std::thread::sleep(Duration::from_millis(50));
        for (idx, (j, child, last)) in children.iter_mut().enumerate() {
            if done[idx] {
                continue;
            }
            let prog = std::fs::read_to_string(dir.join(format!("w{j}.progress"))).unwrap_or_default().trim().to_string();
            match child.try_wait().unwrap() {
                Some(st) => {
                    done[idx] = true;
                    live -= 1;
                    let code = st.code();
                    if code != Some(0) && code != Some(3) {
                        // abort / signal while executing run `prog`
                        if let Ok(i) = prog.parse::<u64>() {
                            watchdog.push((i, "abort".to_string(), format!("simulator process died ({st}) while executing this run")));
                        } else {
                            die(&format!("worker {j} died ({st}) outside a run; see {}", dir.join(format!("w{j}.stderr")).display()));
                        }
                    }
                }
                None => {
                    let stalled = match last {
                        Some((p, t)) if *p == prog => t.elapsed() > Duration::from_secs(STALL_SECS),
                        _ => {
                            *last = Some((prog.clone(), Instant::now()));
                            false
                        }
                    };
                    if stalled {
                        let _ = child.kill();
                        let _ = child.wait();
                        done[idx] = true;
                        live -= 1;
                        if let Ok(i) = prog.parse::<u64>() {
                            watchdog.push((i, "no-progress".to_string(), format!("no heartbeat for {STALL_SECS} s: the run neither finished nor reached a scheduling point")));
                        } else {
                            die(&format!("worker {j} stalled outside a run"));
                        }
                    }
                }
            }
        }
    }
    let mut lines = Vec::new();
    let mut hashes = HashSet::new();
    for j in 0..jobs {
        if let Ok(text) = std::fs::read_to_string(dir.join(format!("w{j}.jsonl"))) {
            for l in text.lines() {
                if let Ok(rl) = serde_json::from_str::<RunLine>(l) {
                    lines.push(rl);
                }
            }
        }
        if keep_hashes {
            if let Ok(b) = std::fs::read(dir.join(format!("w{j}.hashes"))) {
                for c in b.chunks_exact(8) {
                    hashes.insert(u64::from_le_bytes(c.try_into().unwrap()));
                }
            }
        }
    }
    lines.sort_by_key(|l| l.i);
    Batch { lines, hashes, watchdog }
}

// ---------------------------------------------------------------------------------------------
// minimisation

fn simplify_inputs(w: &Workload) -> Vec<Workload> {
    let s = Workload::simple(1, 1, 0);
    let mut all = w.clone();
    all.start = s.start;
    all.lat = 0.0;
    all.lon = 0.0;
    all.elev = 0.0;
    all.gmt = 0.0;
    all.method = s.method.clone();
    all.round = s.round.clone();
    all.asr_hanafi = false;
    all.ext = s.ext.clone();
    all.ext_lat = s.ext_lat;
    all.minute_off = 0.0;
    let mut v = vec![all];
    let mut a = w.clone();
    a.start = s.start;
    v.push(a);
    let mut b = w.clone();
    b.lat = 0.0;
    b.lon = 0.0;
    b.elev = 0.0;
    b.gmt = 0.0;
    v.push(b);
    let mut c = w.clone();
    c.method = s.method;
    c.round = s.round;
    c.asr_hanafi = false;
    c.ext = s.ext;
    c.ext_lat = s.ext_lat;
    c.minute_off = 0.0;
    v.push(c);
    v
}

struct Minimiser<'a> {
    dir: &'a Path,
    class: String,
    probes: u32,
    log: Vec<String>,
}

impl<'a> Minimiser<'a> {
    fn timeout(&self) -> Duration {
        if self.class == "no-progress" {
            Duration::from_secs(20)
        } else {
            Duration::from_secs(STALL_SECS)
        }
    }

    /// does this workload still fail in the same class? returns the failing trace if so
    fn still_fails(&mut self, base: &CaseFile, w: &Workload) -> Option<Trace> {
        let mut c = base.clone();
        c.workload = w.clone();
        let mut kinds = vec![w.sched.kind.clone()];
        if w.sched.kind != "random" {
            kinds.push("random".into());
        }
        for (k, kind) in kinds.iter().enumerate() {
            c.workload.sched.kind = kind.clone();
            self.probes += 1;
            let r = probe(
                self.dir,
                &c,
                "search",
                // fewer schedules for long ranges (a 6000-day schedule costs ~0.1 s)
                &["--sseed".into(), format!("{}", 7 + k), "--budget".into(), format!("{}", (300_000 / (w.days.max(1) as u64)).clamp(60, 1500))],
                self.timeout(),
            );
            if probe_class(&r) == self.class {
                return Some(match r {
                    ProbeResult::Done(o) => o.failing_trace.unwrap_or_default(),
                    _ => Trace::default(),
                });
            }
        }
        None
    }

    fn shrink_workload(&mut self, case: &mut CaseFile) {
        // inputs the concurrency cannot see
        for cand in simplify_inputs(&case.workload) {
            if cand == case.workload {
                continue;
            }
            if let Some(t) = self.still_fails(case, &cand) {
                self.log.push("inputs simplified".to_string());
                case.workload = cand;
                case.trace = t;
                break;
            }
        }
        for _round in 0..3 {
            let before = case.workload.clone();
            // worker count
            if let Some(wk) = case.workload.workers {
                for cand_w in [2usize, 3, 4, 5, 6, 8, 12, 16, 24, 32, 48] {
                    if cand_w >= wk {
                        break;
                    }
                    // keep the days/workers relation as a second candidate
                    let scaled = ((case.workload.days as u64 * cand_w as u64) / wk as u64) as u32;
                    let mut accepted = false;
                    for d in [case.workload.days, scaled] {
                        let mut cand = case.workload.clone();
                        cand.workers = Some(cand_w);
                        cand.days = d;
                        if let Some(t) = self.still_fails(case, &cand) {
                            self.log.push(format!("workers {wk} -> {cand_w}, days -> {d}"));
                            case.workload = cand;
                            case.trace = t;
                            accepted = true;
                            break;
                        }
                    }
                    if accepted {
                        break;
                    }
                }
            }
            // days
            let w = case.workload.workers.unwrap_or(1) as u32;
            let d0 = case.workload.days;
            let mut cands = vec![0, 1, 2, 3, 4, 5, w.saturating_sub(1), w, w + 1, 2 * w, d0 / 2, d0.saturating_sub(1)];
            cands.sort_unstable();
            cands.dedup();
            for d in cands {
                if d >= d0 {
                    break;
                }
                let mut cand = case.workload.clone();
                cand.days = d;
                if let Some(t) = self.still_fails(case, &cand) {
                    self.log.push(format!("days {d0} -> {d}"));
                    case.workload = cand;
                    case.trace = t;
                    break;
                }
            }
            // threshold
            let t0 = case.workload.thr;
            for thr in [0usize, 1, t0 / 2] {
                if thr >= t0 {
                    break;
                }
                let mut cand = case.workload.clone();
                cand.thr = thr;
                if let Some(t) = self.still_fails(case, &cand) {
                    self.log.push(format!("thr {t0} -> {thr}"));
                    case.workload = cand;
                    case.trace = t;
                    break;
                }
            }
            if case.workload == before || self.probes > 150 {
                break;
            }
        }
    }

    /// ddmin over the sparse pre-emption list
    fn shrink_schedule(&mut self, case: &mut CaseFile) {
        if case.trace.tasks.is_empty() {
            return;
        }
        // sparse form of the failing trace
        self.probes += 1;
        let overrides = match probe(self.dir, case, "diff", &[], self.timeout()) {
            ProbeResult::Done(o) if o.class == self.class => o.overrides,
            _ => return, // keep the full trace
        };
        let mut cur = overrides;
        let fails = |me: &mut Self, case: &CaseFile, ov: &Vec<(u32, u32)>| -> Option<Trace> {
            let mut c = case.clone();
            c.preemptions = ov.clone();
            me.probes += 1;
            match probe(me.dir, &c, "sparse", &[], me.timeout()) {
                ProbeResult::Done(o) if o.class == me.class => Some(o.failing_trace.unwrap_or_default()),
                _ => None,
            }
        };
        if fails(self, case, &cur).is_none() {
            return; // sparse form does not reproduce (should not happen); keep the full trace
        }
        let mut n = 2usize;
        while cur.len() >= 1 && self.probes < 400 {
            let chunk = (cur.len() + n - 1) / n;
            let mut reduced = false;
            let mut start = 0;
            while start < cur.len() {
                let end = (start + chunk).min(cur.len());
                let cand: Vec<(u32, u32)> = cur[..start].iter().chain(cur[end..].iter()).copied().collect();
                if fails(self, case, &cand).is_some() {
                    cur = cand;
                    n = n.saturating_sub(1).max(2);
                    reduced = true;
                    break;
                }
                start = end;
            }
            if !reduced {
                if chunk <= 1 {
                    break;
                }
                n = (n * 2).min(cur.len().max(2));
            }
        }
        if let Some(t) = fails(self, case, &cur) {
            self.log.push(format!("schedule reduced to {} pre-emptions, {} steps", cur.len(), t.tasks.len()));
            case.preemptions = cur;
            case.trace = t;
        }
    }
}

fn minimise(dir: &Path, raw: &CaseFile) -> (CaseFile, Vec<String>) {
    let mut case = raw.clone();
    case.original_workload = Some(raw.workload.clone());
    case.original_steps = raw.trace.tasks.len();
    let mut m = Minimiser { dir, class: raw.class.clone(), probes: 0, log: vec![] };
    m.shrink_workload(&mut case);
    if raw.class != "no-progress" && raw.class != "abort" {
        m.shrink_schedule(&mut case);
        // the trace must replay strictly in a fresh process; otherwise fall back to the raw case
        match probe(dir, &case, "strict", &[], Duration::from_secs(STALL_SECS)) {
            ProbeResult::Done(o) if o.class == raw.class && o.diverged.is_none() => {
                case.message = o.message;
            }
            other => {
                m.log.push(format!("minimised case did not replay strictly ({}); keeping the raw failing case", probe_class(&other)));
                case = raw.clone();
            }
        }
    }
    case.minimised = true;
    m.log.push(format!("{} probes", m.probes));
    (case, m.log)
}

// ---------------------------------------------------------------------------------------------
// known findings

#[derive(serde::Deserialize, Debug, Default)]
struct KnownFile {
    #[serde(default)]
    findings: Vec<KnownFinding>,
}
#[derive(serde::Deserialize, Debug)]
struct KnownFinding {
    property: String,
    class: String,
    /// subset of workload fields that identify the finding after minimisation
    #[serde(default)]
    workload: serde_json::Map<String, serde_json::Value>,
    what: String,
}

fn matches_known(k: &KnownFinding, case: &CaseFile) -> bool {
    if k.property != "C15" || k.class != case.class {
        return false;
    }
    let w = serde_json::to_value(&case.workload).unwrap();
    k.workload.iter().all(|(key, v)| w.get(key) == Some(v))
}

// ---------------------------------------------------------------------------------------------

fn hist_bucket(x: u64) -> String {
    match x {
        0 => "0".into(),
        1 => "1".into(),
        2..=3 => "2-3".into(),
        4..=7 => "4-7".into(),
        8..=15 => "8-15".into(),
        16..=31 => "16-31".into(),
        32..=63 => "32-63".into(),
        64..=127 => "64-127".into(),
        128..=400 => "128-400".into(),
        401..=1000 => "401-1000".into(),
        _ => "1001-6000".into(),
    }
}

pub fn run(args: &[String]) -> i32 {
    let t_start = Instant::now();
    let tier_s = arg_val(args, "--tier").unwrap_or_else(|| std::env::var("VERIF_TIER").unwrap_or_else(|_| "quick".into()));
    let tier = tier_num(&tier_s);
    let seed = arg_val(args, "--seed")
        .or_else(|| std::env::var("VERIF_SEED").ok().filter(|s| !s.is_empty()))
        .map(|s| s.parse::<u64>().unwrap_or_else(|_| die("seed must be an unsigned integer")))
        .unwrap_or(DEFAULT_SEED);
    let jobs = arg_u64(args, "--jobs", std::thread::available_parallelism().map(|n| n.get() as u64).unwrap_or(4)).max(1);
    let total = arg_u64(args, "--runs", if tier == 0 { 24_000 } else { 1_000_000 });
    let evidence = arg_val(args, "--evidence").unwrap_or_else(|| die("--evidence FILE"));
    let replays = arg_val(args, "--replays").unwrap_or_else(|| die("--replays DIR"));
    let known_path = arg_val(args, "--known");
    let known: KnownFile = known_path
        .as_ref()
        .and_then(|p| std::fs::read(p).ok())
        .map(|b| serde_json::from_slice(&b).unwrap_or_else(|e| die(&format!("known findings file: {e}"))))
        .unwrap_or_default();
    let miri: serde_json::Value = arg_val(args, "--miri-summary")
        .and_then(|p| std::fs::read(p).ok())
        .and_then(|b| serde_json::from_slice(&b).ok())
        .unwrap_or_else(|| json!({"status": "not run in this tier"}));
    let miri_violation = miri.get("status").and_then(|s| s.as_str()) == Some("violation");
    let spawn: serde_json::Value = arg_val(args, "--spawn-summary")
        .and_then(|p| std::fs::read(p).ok())
        .and_then(|b| serde_json::from_slice(&b).ok())
        .unwrap_or_else(|| json!({"status": "not run"}));
    let spawn_violation = spawn.get("status").and_then(|s| s.as_str()) == Some("violation");
    println!("C15 tier={tier_s} VERIF_SEED={seed} runs={total} jobs={jobs}");

    let dir = scratch_dir("run");
    let mut all_lines: Vec<RunLine> = Vec::new();
    let mut all_hashes: HashSet<u64> = HashSet::new();
    let mut violations: Vec<(CaseFile, PathBuf, Vec<String>)> = Vec::new();
    let mut known_hits: Vec<String> = Vec::new();
    let mut skipped_ref_hang: Vec<u64> = Vec::new();
    let mut first = 0u64;
    let mut rounds = 0;
    while first < total {
        rounds += 1;
        let batch = run_batch(&dir.join("batch"), seed, tier, first, total - first, jobs, true);
        // failures of this batch, lowest run index first
        let mut fails: Vec<CaseFile> = Vec::new();
        for l in &batch.lines {
            if l.outcome.class != "ok" && l.outcome.class != "skipped-reference-panicked" {
                fails.push(CaseFile {
                    property: "C15".into(),
                    class: l.outcome.class.clone(),
                    seed,
                    run: l.i,
                    tier,
                    workload: l.workload.clone(),
                    trace: l.outcome.failing_trace.clone().unwrap_or_default(),
                    preemptions: vec![],
                    message: l.outcome.message.clone(),
                    minimised: false,
                    original_workload: None,
                    original_steps: 0,
                });
            }
        }
        for (i, class, msg) in &batch.watchdog {
            fails.push(CaseFile {
                property: "C15".into(),
                class: class.clone(),
                seed,
                run: *i,
                tier,
                workload: workload::generate(seed, *i, tier),
                trace: Trace::default(),
                preemptions: vec![],
                message: msg.clone(),
                minimised: false,
                original_workload: None,
                original_steps: 0,
            });
        }
        fails.sort_by_key(|c| c.run);
        let cutoff = fails.first().map(|c| c.run);
        for l in batch.lines {
            if cutoff.map(|c| l.i < c).unwrap_or(true) {
                all_lines.push(l);
            }
        }
        all_hashes.extend(batch.hashes);
        match fails.into_iter().next() {
            None => break,
            Some(raw) => {
                // an abort/no-progress verdict must reproduce in a fresh process before it is believed
                if raw.class == "abort" || raw.class == "no-progress" {
                    // ... and it must not be the *sequential* reference that does not terminate (another property)
                    let rr = probe(&dir, &raw, "ref", &[], Duration::from_secs(90));
                    if !matches!(rr, ProbeResult::Done(_)) {
                        println!("run {}: the sequential API itself does not terminate on this workload; skipped (not C15)", raw.run);
                        skipped_ref_hang.push(raw.run);
                        first = raw.run + 1;
                        continue;
                    }
                    let r = probe(&dir, &raw, "spec", &[], Duration::from_secs(STALL_SECS));
                    let c = probe_class(&r);
                    if c == "ok" {
                        die(&format!("run {} ended as {} in the batch but passes when re-run alone: simulator malfunction", raw.run, raw.class));
                    }
                }
                // fast path: the raw failure already has the identity of a listed finding
                if let Some(k) = known.findings.iter().find(|k| matches_known(k, &raw)) {
                    let line = format!("KNOWN-FINDING: property=C15 {}", k.what);
                    if !known_hits.contains(&line) {
                        known_hits.push(line);
                    }
                    first = raw.run + 1;
                    if rounds > 200 {
                        die("more than 200 restarts after known findings");
                    }
                    continue;
                }
                println!("failure at run {} class={} : minimising ...", raw.run, raw.class);
                let (case, mut log) = minimise(&dir, &raw);
                // a stall under simulation can be an artefact of real std primitives reached through full
                // paths (they block the coroutine's OS thread): confirm on the un-hooked code under Miri
                if (case.class == "abort" || case.class == "no-progress") && case.workload.days <= 12 {
                    if let (Some(w), Some(tool)) = (case.workload.workers, arg_val(args, "--miri-tool")) {
                        let st = Command::new("python3")
                            .args([tool.as_str(), "confirm", &w.to_string(), &case.workload.days.to_string(), &case.workload.thr.to_string()])
                            .stdout(Stdio::null())
                            .stderr(Stdio::null())
                            .status();
                        match st.ok().and_then(|s| s.code()) {
                            Some(0) => {
                                let _ = std::fs::remove_dir_all(&dir);
                                die(&format!("run {}: stall under simulation (workers={w} days={} thr={}) is not confirmed by the un-hooked code under Miri, which completes correctly: simulator artefact, not reported as a violation", raw.run, case.workload.days, case.workload.thr));
                            }
                            Some(1) => log.push("confirmed on un-hooked code under Miri: fails there too".into()),
                            Some(3) => log.push("confirmed on un-hooked code under Miri: does not finish there either".into()),
                            _ => log.push("Miri confirmation unavailable".into()),
                        }
                    }
                }
                if let Some(k) = known.findings.iter().find(|k| matches_known(k, &case)) {
                    let line = format!("KNOWN-FINDING: property=C15 {}", k.what);
                    if !known_hits.contains(&line) {
                        known_hits.push(line);
                    }
                    first = raw.run + 1;
                    if rounds > 50 {
                        die("more than 50 restarts after known findings");
                    }
                    continue;
                }
                std::fs::create_dir_all(&replays).ok();
                let path = PathBuf::from(&replays).join(format!("C15-{}-{}.json", seed, raw.run));
                std::fs::write(&path, serde_json::to_vec_pretty(&case).unwrap()).unwrap();
                violations.push((case, path, log));
                break; // first violation ends the batch
            }
        }
    }

    // -------- determinism spot check: re-run a sample with another sharding, compare digests
    let mut det = json!({"checked": 0, "mismatches": 0});
    if violations.is_empty() && !all_lines.is_empty() {
        let n = (all_lines.len() as u64).min(if tier == 0 { 400 } else { 2000 });
        let again = run_batch(&dir.join("det"), seed, tier, 0, n, 3.min(jobs), false);
        let by_i: HashMap<u64, &RunLine> = all_lines.iter().map(|l| (l.i, l)).collect();
        let mut mism = 0;
        let mut checked = 0;
        for l in &again.lines {
            if let Some(o) = by_i.get(&l.i) {
                checked += 1;
                if o.outcome.digest != l.outcome.digest {
                    mism += 1;
                    eprintln!("determinism: run {} digest {} vs {}", l.i, o.outcome.digest, l.outcome.digest);
                }
            }
        }
        det = json!({"checked": checked, "mismatches": mism, "how": "first runs of the batch repeated in fresh processes with 3 shards instead of the batch's; per-run digest = hash(workload, expected result, sorted interleaving hashes, executions, steps, switches, class)"});
        if mism > 0 {
            let _ = std::fs::remove_dir_all(&dir);
            die("simulator is not deterministic (digest mismatch); refusing to report");
        }
    }

    // -------- aggregate
    let mut probes = ProbeAgg::default();
    let mut executions = 0u64;
    let mut steps = 0u64;
    let mut switches = 0u64;
    let mut preempt = 0u64;
    let mut choice_points = 0u64;
    let mut skipped = 0u64;
    let mut workers_hist: BTreeMap<String, u64> = BTreeMap::new();
    let mut days_hist: BTreeMap<String, u64> = BTreeMap::new();
    let mut thr_side: BTreeMap<String, u64> = BTreeMap::new();
    let mut sched_hist: BTreeMap<String, u64> = BTreeMap::new();
    let mut sched_execs: BTreeMap<String, u64> = BTreeMap::new();
    let mut avail_err_runs = 0u64;
    let mut days_lt_workers_parallel = 0u64;
    let mut empty_range = 0u64;
    let mut big_parallel = 0u64;
    let mut parallel_runs = 0u64;
    let mut sequential_runs = 0u64;
    let mut max_steps_seen = 0u64;
    let mut max_tasks = 0u32;
    let mut samples = Vec::new();
    let mut max_run_wall_ms = 0u64;
    for l in &all_lines {
        let o = &l.outcome;
        max_run_wall_ms = max_run_wall_ms.max(l.wall_us / 1000);
        if o.class == "skipped-reference-panicked" {
            skipped += 1;
            continue;
        }
        probes.merge(&o.probes);
        executions += o.executions;
        steps += o.steps_total;
        switches += o.context_switches;
        preempt += o.preemptions;
        choice_points += o.choice_points;
        max_steps_seen = max_steps_seen.max(o.max_steps_seen);
        max_tasks = max_tasks.max(o.max_tasks);
        let w = &l.workload;
        *workers_hist.entry(match w.workers { None => "err".into(), Some(n) => hist_bucket(n as u64) }).or_default() += 1;
        *days_hist.entry(hist_bucket(w.days as u64)).or_default() += 1;
        let key = if w.sched.kind == "pct" { format!("pct-{}", w.sched.depth) } else { w.sched.kind.clone() };
        *sched_hist.entry(key.clone()).or_default() += 1;
        *sched_execs.entry(key).or_default() += o.executions;
        if w.workers.is_none() {
            avail_err_runs += 1;
        }
        if w.days == 0 {
            empty_range += 1;
        }
        let par = o.probes.parallel_execs > 0;
        if par {
            parallel_runs += 1;
            if (w.days as usize) < w.workers.unwrap_or(1) {
                days_lt_workers_parallel += 1;
            }
            if w.days > 1000 {
                big_parallel += 1;
            }
        } else {
            sequential_runs += 1;
        }
        let q = w.days as usize / w.workers.unwrap_or(1).max(1);
        let side = if w.workers.unwrap_or(1) == 1 { "workers==1" } else if q < w.thr { "below-threshold" } else if q == w.thr { "at-threshold" } else { "above-threshold" };
        *thr_side.entry(side.into()).or_default() += 1;
        if samples.len() < 6 && par && (samples.len() < 3 || w.days as usize <= w.workers.unwrap_or(1)) {
            samples.push(json!({"run": l.i, "workload": w, "executions": o.executions, "distinct_interleavings": o.distinct_interleavings,
                "steps_total": o.steps_total, "tasks": o.max_tasks, "class": o.class}));
        }
    }
    if samples.is_empty() {
        if let Some(l) = all_lines.first() {
            samples.push(json!({"run": l.i, "workload": l.workload, "executions": l.outcome.executions, "class": l.outcome.class}));
        }
    }
    let wall = t_start.elapsed().as_secs_f64();
    let mut warnings: Vec<String> = Vec::new();
    for (name, v) in [
        ("parallel_execs", probes.parallel_execs),
        ("sequential_execs", probes.sequential_execs),
        ("execs_recv_on_empty", probes.execs_recv_on_empty),
        ("execs_last_sender_drop_while_recv_waiting", probes.execs_last_sender_drop_while_recv_waiting),
        ("execs_recv_before_all_spawned", probes.execs_recv_before_all_spawned),
        ("days_lt_workers_parallel_runs", days_lt_workers_parallel),
        ("empty_range_runs", empty_range),
        ("avail_err_runs", avail_err_runs),
    ] {
        if v == 0 {
            warnings.push(format!("reach probe '{name}' stayed at 0 in this batch (informational; never changes the exit status)"));
        }
    }
    let ev = json!({
        "property_id": "C15",
        "tier": tier_s,
        "seed": seed,
        "level": "exploration",
        "wall_s": wall,
        "violations": violations.len() + miri_violation as usize + spawn_violation as usize,
        "coverage": {
            "evaluations": executions.max(1),
            "distinct_nontrivial": all_hashes.len(),
            "rule": "one evaluation = one complete execution of the real prayer_times_dt_rng_block under one schedule chosen by a seeded shuttle scheduler (random / PCT depth 1-6 / uniform random walk), compared with the sequential API. Workloads (simulated core count 1..64 or a failing available_parallelism, range length 0..6000, threshold 0..400, dates, location, method, policies, scheduler kind and seed) are a pure function of (VERIF_SEED, run index). distinct_nontrivial = number of distinct hashes of (workers, days, threshold, full task-id sequence) over executions that had at least one scheduling step with two or more runnable tasks, i.e. distinct interleavings of the parallel path; sequential-path executions are never counted here.",
            "samples": samples,
            "workloads": all_lines.len(),
            "workloads_skipped_reference_panicked": skipped,
            "workloads_skipped_sequential_api_does_not_terminate": skipped_ref_hang,
            "runs_per_hour": (all_lines.len() as f64 / wall * 3600.0) as u64,
            "schedules_per_hour": (executions as f64 / wall * 3600.0) as u64,
            "scheduler_steps": steps,
            "simulated_time": "not applicable: the code under test has no timers; progress is measured in scheduler steps (see scheduler_steps, max_steps_in_one_execution)",
            "max_steps_in_one_execution": max_steps_seen,
            "slowest_run_wall_ms": max_run_wall_ms,
            "no_progress_watchdog_s": STALL_SECS,
            "max_tasks_in_one_execution": max_tasks,
            "faults_injected": {
                "context_switches": switches,
                "preemptions_of_a_runnable_task": preempt,
                "choice_points": choice_points,
                "workloads_by_scheduler": sched_hist,
                "executions_by_scheduler": sched_execs,
                "workloads_by_simulated_workers": workers_hist,
                "available_parallelism_error_runs": avail_err_runs,
                "timer_fires_in_recv_timeout": probes.timer_fires,
                "timer_polls": probes.timer_polls,
                "step_limit_hits_resolved_by_fair_continuation": probes.step_limits_resolved_by_fair_continuation,
                "thread_creations_refused_in_spawn_leg": spawn.get("faults_fired").cloned().unwrap_or(json!(0)),
                "not_injected_under_shuttle": ["Scope::spawn failure / worker panic: shuttle cannot model recoverable panics (DESIGN.md §2.4); covered on real threads by the spawn-failure leg (EAGAIN from pthread_create) and by the Miri panic-propagation configuration"]
            },
            "probes": {
                "parallel_path_runs": parallel_runs,
                "sequential_path_runs": sequential_runs,
                "parallel_runs_with_fewer_days_than_workers": days_lt_workers_parallel,
                "parallel_runs_over_1000_days": big_parallel,
                "empty_range_runs": empty_range,
                "threshold_side": thr_side,
                "days_hist": days_hist,
                "per_execution": probes,
                "warnings": warnings
            },
            "components": {
                "real": ["islamic_prayer_times library from /repo working tree (hooked build): prayer_times_dt_rng_block, DateRange::partition, prayer_times_dt_rng, all astronomy"],
                "model": ["std::thread::{scope,spawn,join} -> shuttle::thread", "std::sync::mpsc::channel -> shuttle mpsc behind ipt_verif_rt (recv_timeout = simulated timer)", "std::thread::available_parallelism -> value set by the simulator"]
            },
            "determinism_check": det,
            "miri_leg": miri,
            "spawn_failure_leg": spawn,
            "restarts_after_known_findings": rounds - 1,
            "known_findings_hit": known_hits,
            "exhaustive": false
        },
        "assumptions": [
            "shuttle's models of thread::scope and mpsc are faithful to std (cross-checked by the Miri leg of the thorough tier on un-hooked code)",
            "under shuttle, termination is decided for panic-free executions only; spawn failure is injected on real threads (spawn-failure leg: schedule uncontrolled, fault controlled) and a worker panic is exercised un-hooked under Miri (thorough)",
            "inputs restricted to |latitude| <= 60 and ranges generated as start + n days (n = 0 as end = start - 1); a workload whose sequential reference panics is skipped and counted",
            "a clean batch is evidence, not proof: schedules are sampled, not enumerated"
        ]
    });
    if let Some(p) = Path::new(&evidence).parent() {
        std::fs::create_dir_all(p).ok();
    }
    std::fs::write(&evidence, serde_json::to_vec_pretty(&ev).unwrap()).unwrap_or_else(|e| die(&format!("cannot write evidence: {e}")));
    let _ = std::fs::remove_dir_all(&dir);

    for k in &known_hits {
        println!("{k}");
    }
    println!(
        "C15: {} workloads, {} executions, {} distinct interleavings, {} scheduler steps, {:.1} s",
        all_lines.len(), executions, all_hashes.len(), steps, wall
    );
    for w in &warnings {
        println!("note: {w}");
    }
    if violations.is_empty() {
        println!("C15 held on everything explored");
        0
    } else {
        for (case, path, log) in &violations {
            println!("class={} run={} workload: workers={:?} days={} thr={} steps={} preemptions={}", case.class, case.run, case.workload.workers, case.workload.days, case.workload.thr, case.trace.tasks.len(), case.preemptions.len());
            println!("message: {}", case.message.lines().next().unwrap_or(""));
            for l in log {
                println!("minimiser: {l}");
            }
            println!("VIOLATION property=C15 replay={}", path.display());
        }
        1
    }
}

pub fn replay(args: &[String]) -> i32 {
    let path = args.get(2).cloned().unwrap_or_else(|| die("replay FILE"));
    let case: CaseFile = serde_json::from_slice(&std::fs::read(&path).unwrap_or_else(|_| die("cannot read replay file"))).unwrap_or_else(|e| die(&format!("bad replay file: {e}")));
    let dir = scratch_dir("replay");
    let mode = if case.trace.tasks.is_empty() { "spec" } else { "strict" };
    let r = probe(&dir, &case, mode, &[], Duration::from_secs(STALL_SECS));
    let _ = std::fs::remove_dir_all(&dir);
    let class = probe_class(&r);
    println!("replay of {path}: recorded class={}, this tree: class={class}", case.class);
    if let ProbeResult::Done(o) = &r {
        if let Some(d) = &o.diverged {
            println!("note: schedule diverged from the recording ({d})");
        }
        if !o.message.is_empty() {
            println!("message: {}", o.message.lines().next().unwrap_or(""));
        }
    }
    if class == "ok" || class == "skipped-reference-panicked" {
        println!("not reproduced on this tree");
        0
    } else {
        println!("VIOLATION property=C15 replay={path}");
        1
    }
}

pub fn selftest(args: &[String]) -> i32 {
    let seed = arg_u64(args, "--seed", DEFAULT_SEED);
    let n = arg_u64(args, "--runs", 2000);
    let tier = tier_num(&arg_val(args, "--tier").unwrap_or_else(|| "quick".into()));
    let dir = scratch_dir("selftest");
    let mut maps: Vec<HashMap<u64, String>> = Vec::new();
    for jobs in [4u64, 16, 7] {
        let b = run_batch(&dir.join(format!("j{jobs}")), seed, tier, 0, n, jobs, false);
        if !b.watchdog.is_empty() {
            die("watchdog fired during selftest");
        }
        maps.push(b.lines.iter().map(|l| (l.i, l.outcome.digest.clone())).collect());
    }
    let _ = std::fs::remove_dir_all(&dir);
    let mut mism = 0;
    for i in 0..n {
        let d: Vec<_> = maps.iter().map(|m| m.get(&i)).collect();
        if d.iter().any(|x| x.is_none()) || d.iter().any(|x| x != &d[0]) {
            mism += 1;
            eprintln!("run {i}: digests {:?}", d);
        }
    }
    println!("selftest: seed {seed}, {n} runs x 3 job counts (4, 16, 7 processes): {mism} digest mismatches");
    if mism == 0 { 0 } else { 2 }
}
